"""Engine `atomic` (C10): documents and the cache file are replaced atomically.

(a) crash mode - fault enumeration: the write's fault-free step trace is
    recorded in a forked clone; then for every mutating step the clone dies
    before it, and for every write step it dies after each torn-prefix class.
    After each death the target must parse completely to the old or the new
    content, and the only new directory entries allowed are one stray temporary
    file next to each target.
(b) reader mode - exploration: a writer process-actor performs the write while
    a reader process-actor opens the project fresh and reads; every position of
    the reader among the writer's steps is swept, plus seeded random / PCT
    interleavings at seam-call granularity.  Every read returns old or new.
"""

import os
import re

from machines.common import (CACHE_REL, DOC_FILE, PDOC_FILE, cid, gen_doc, gen_sp,
                             gen_value, norm, quiet, raw_project, read_cache, read_json, same, viol)
from simcore.driver import EngineBase, generic_shrink
from simcore.faultenum import fault_label, run_op, variants
from simcore.sched import Scheduler, SimRLock, install_locks, install_pools
from simcore.world import O, SimWorld, diff_snap, restore, snapshot

STRAY = re.compile(r"^\._[0-9a-f]{8}-[0-9a-f]{4}-[0-9a-f]{4}-[0-9a-f]{4}-[0-9a-f]{12}_(.+)$")


def apply_doc_op(doc, op):
    """Model: result of op on a plain dict (deep-normalised)."""
    d = norm(doc) if doc is not None else {}
    kind = op[0]
    if kind == "setitem":
        d[op[1]] = norm(op[2])
    elif kind == "update":
        d.update(norm(op[1]))
    elif kind in ("reset", "assign", "assign_handle"):
        d = norm(op[1])
    elif kind == "clear":
        d = {}
    elif kind == "delitem":
        d.pop(op[1], None)
    return d


def donor_sp(i):
    return {"donor": i}


def do_doc_op(handle, op, owner=None, donor=None):
    """handle: a callable returning the document (fetched only by the operations that go through it: a whole
    assignment by a process that never looked at the document must stay exactly that)."""
    kind = op[0]
    if kind == "assign":
        # whole-document assignment through the property setter (job.doc = X / project.doc = X)
        owner.doc = op[1]
        return
    if kind == "assign_handle":
        # ... where X is the live document of another job (dst.doc = src.doc)
        owner.doc = donor.doc
        return
    handle = handle()
    if kind == "setitem":
        handle[op[1]] = op[2]
    elif kind == "update":
        handle.update(op[1])
    elif kind == "reset":
        handle.reset(op[1])
    elif kind == "clear":
        handle.clear()
    elif kind == "delitem":
        del handle[op[1]]


class Engine(EngineBase):
    def budget(self, tier):
        return (800, 55.0) if tier == "quick" else (20000, 900.0)

    def rule(self):
        return ("seeded scenarios (target in job document / project document / buffered flush of 1-3 "
                "documents / update_cache on growing, shrinking, unchanged workspace; old and new "
                "content; chunking, threading knob); crash mode enumerates every mutating step x "
                "{death before, torn prefix classes}; reader mode sweeps every reader position and "
                "samples random/PCT interleavings; half of the crash scenarios continue with the next complete "
                "write after each crash + restart (itself crashed at seeded points near the publishing steps). distinct = (target, write kind, fault kind, step "
                "kind, observed old|new|absent) tuples and happens-before fingerprints; non-trivial "
                "= the fault fired or the reader overlapped the write")

    def stubs(self):
        return super().stubs() + ["RLock -> SimRLock (per simulated process); synced_collections per-file lock table -> table that re-creates entries another simulated process moved",
                                  "reader / writer processes = baton-passing thread actors"]

    # ------------------------------------------------------------------
    def generate(self, rng, tier):
        mode = "crash" if rng.random() < 0.6 else "reader"
        target = rng.choice(["jobdoc", "jobdoc", "projdoc", "buffered", "cache", "cache", "migdoc"])
        knobs = {
            "chunk": rng.choice(["none", "split2", "small"]),
            "listing": rng.choice(["shuffle", "sorted", "reverse"]),
            "clock": rng.choice(["inc", "coarse", "stall"]),
            "mt": rng.random() < 0.6,
            "pool": rng.randrange(1, 4),
            "xdev_tmp": rng.random() < 0.3,
        }
        if target == "migdoc":
            mode = "crash"
        if target == "buffered":
            # the buffer is process-global state: two process-actors in one interpreter would
            # share it, which two real processes never do -> crash mode only
            mode = "crash"
        sc = {"mode": mode, "target": target, "knobs": knobs}
        njobs = rng.randrange(1, 4)
        sps = []
        while len(sps) < njobs:
            sp = gen_sp(rng, "abc", 1)
            if all(not same(sp, s) for s in sps):
                sps.append(sp)
        sc["jobs"] = sps
        if target == "migdoc":
            sc["mig"] = {"name": rng.choice(["myproject", "my project v2", "a, b"]),
                         "pdoc": rng.choice([None, {"k": "v"}, gen_doc(rng, "large")]),
                         "version": rng.choice(["absent", 0, 1])}
        elif target in ("jobdoc", "projdoc", "buffered"):
            nd = 1 if target != "buffered" else rng.randrange(1, njobs + 1)
            docs = []
            for i in range(nd):
                old_kind = rng.choice(["absent", "empty", "small", "small", "large"])
                old = None if old_kind == "absent" else gen_doc(rng, old_kind)
                keys = list(old) if old else []
                choices = ["setitem", "setitem", "update", "reset", "reset_large"]
                if old:
                    choices += ["clear", "delitem", "setitem_existing"]
                w = rng.choice(choices)
                tag = "v%d" % rng.randrange(10**9)  # unique written value
                if w == "setitem":
                    op = ["setitem", "new_" + rng.choice("kq"), {"tag": tag, "v": gen_value(rng, 1)}]
                elif w == "setitem_existing":
                    op = ["setitem", rng.choice(keys), tag]
                elif w == "update":
                    op = ["update", {"u1": tag, "u2": gen_value(rng, 1)}]
                elif w == "reset":
                    op = [rng.choice(["reset", "assign", "assign", "assign_handle"]),
                          {"r": tag, **gen_doc(rng, "small")}]
                elif w == "reset_large":
                    big = gen_doc(rng, "large")
                    big["tag"] = tag
                    op = ["reset", big]
                elif w == "clear":
                    op = ["clear"]
                else:
                    op = ["delitem", rng.choice(keys)]
                docs.append({"old": old, "op": op})
            sc["docs"] = docs
            if target == "buffered":
                sc["capacity"] = rng.choice([None, None, 0, 64, 1024])
        else:
            sc["cache"] = {
                "pre_update": rng.random() < 0.7,
                "add": [gen_sp(rng, "abcd", 1) for _ in range(rng.randrange(0, 3))],
                "remove": rng.randrange(0, njobs + 1),
                "big": rng.random() < 0.25,
            }
        # crash mode: after the restart the next complete write of the same file must give exactly its
        # content (a stale temporary file of the dead writer must not leak into it)
        sc["followup"] = mode == "crash" and target in ("jobdoc", "projdoc", "cache") and rng.random() < 0.5
        if mode == "reader":
            sc["schedules"] = rng.randrange(4, 10)
            sc["policy"] = rng.choice(["random", "pct"])
        return sc

    def shrink(self, scenario):
        yield from generic_shrink(scenario, "jobs")
        if scenario.get("docs") and len(scenario["docs"]) > 1:
            yield from generic_shrink(scenario, "docs")
        k = dict(scenario["knobs"])
        if k.get("chunk") != "none":
            c = dict(scenario)
            c["knobs"] = dict(k, chunk="none")
            yield c

    def sample(self, scenario, result):
        return {"scenario": {k: v for k, v in scenario.items() if k != "docs"} |
                ({"docs": [{"old_keys": sorted(d["old"]) if d["old"] else None,
                            "op": d["op"][0]} for d in scenario.get("docs", [])]}
                 if scenario.get("docs") else {}),
                "trace": result.get("trace_sample"), "outcome": result.get("outcome")}

    # ------------------------------------------------------------------
    def execute(self, sc, ctx):
        import signac

        install_locks(shared_interpreter=True)
        install_pools(width=sc["knobs"].get("pool", 2))
        if not sc["knobs"].get("mt", True):
            signac.JSONDict.disable_multithreading()
        res = {"violations": [], "keys": [], "stats": {"faults": {}, "probes": {}},
               "nontrivial": False}
        root = os.path.join(ctx.scratch, "w")
        with SimWorld(root, seed=sc.get("seed", 0), knobs=sc["knobs"]) as world:
            self._run(sc, world, res)
            res["digest"] = world.digest()
            res["stats"]["steps"] = world.seq
            res["stats"]["sim_ms"] = world.clock_ms - 1_000_000_000_000
        return res

    def _setup(self, sc, world):
        """Build the pre-state through signac itself (unarmed)."""
        import signac

        pp = world.p("proj")
        if sc["target"] == "migdoc":
            return pp, [self._setup_legacy(sc, world, pp)]
        project = signac.init_project(pp)
        jobs = [project.open_job(sp).init() for sp in sc["jobs"]]
        targets = []
        if sc["target"] in ("jobdoc", "projdoc", "buffered"):
            for i, d in enumerate(sc["docs"]):
                if d["op"][0] == "assign_handle":
                    project.open_job(donor_sp(i)).init().doc.reset(d["op"][1])
                if sc["target"] == "projdoc":
                    path = os.path.join(pp, PDOC_FILE)
                    if d["old"] is not None:
                        project.doc.reset(d["old"])
                else:
                    job = jobs[i % len(jobs)]
                    path = os.path.join(job.path, DOC_FILE)
                    if d["old"] is not None:
                        job.doc.reset(d["old"])
                        if d["old"] == {}:
                            with world.observing():
                                if not os.path.exists(path):
                                    with O.io_open(path, "wb") as f:
                                        f.write(b"{}")
                targets.append(path)
            if sc["target"] == "projdoc" and sc["docs"][0]["old"] == {}:
                with world.observing():
                    if not os.path.exists(targets[0]):
                        with O.io_open(targets[0], "wb") as f:
                            f.write(b"{}")
        else:
            c = sc["cache"]
            if c.get("big"):
                for i in range(40):
                    project.open_job({"big": i, "pad": "x" * 200}).init()
            if c["pre_update"]:
                project.update_cache()
            for sp in c["add"]:
                project.open_job(sp).init()
            for j in jobs[: c["remove"]]:
                j.remove()
            targets.append(os.path.join(pp, CACHE_REL))
        return pp, targets

    @quiet
    def _setup_legacy(self, sc, world, pp):
        """A schema-version-1 project with a non-default name: its migration writes the project document."""
        import json as _json

        from signac._vendor import configobj

        m = sc["mig"]
        os.makedirs(os.path.join(pp, "workspace"))
        c = configobj.ConfigObj()
        c.filename = os.path.join(pp, "signac.rc")
        c["project"] = m["name"]
        if m["version"] != "absent":
            c["schema_version"] = str(m["version"])
        c.write()
        for sp in sc["jobs"]:
            d = os.path.join(pp, "workspace", cid(sp))
            os.makedirs(d)
            with O.io_open(os.path.join(d, "signac_statepoint.json"), "wb") as f:
                f.write(_json.dumps(sp).encode())
        path = os.path.join(pp, PDOC_FILE)
        if m["pdoc"] is not None:
            with O.io_open(path, "wb") as f:
                f.write(_json.dumps(m["pdoc"]).encode())
        return path

    def _writer(self, sc, pp):
        """Returns op() that performs the write with fresh handles."""
        import signac

        if sc["target"] == "migdoc":
            import contextlib
            import io

            from signac.migration import apply_migrations

            def migrate():
                with contextlib.redirect_stderr(io.StringIO()):
                    apply_migrations(pp)
            return migrate

        project = signac.Project(pp)
        t = sc["target"]
        if t == "cache":
            return lambda: project.update_cache()
        def donor(i, op):
            return project.open_job(donor_sp(i)) if op[0] == "assign_handle" else None

        if t == "projdoc":
            op = sc["docs"][0]["op"]
            dn = donor(0, op)
            return lambda: do_doc_op(lambda: project.doc, op, project, dn)
        handles = []
        for i, d in enumerate(sc["docs"]):
            job = project.open_job(sc["jobs"][i % len(sc["jobs"])])
            handles.append(((lambda job=job: job.doc), d["op"], job, donor(i, d["op"])))
        if t == "jobdoc":
            h, op, job, dn = handles[0]
            return lambda: do_doc_op(h, op, job, dn)
        cap = sc.get("capacity")

        def buffered():
            if cap is not None:
                with signac.buffered(cap):
                    for h, op, job, dn in handles:
                        do_doc_op(h, op, job, dn)
            else:
                with signac.buffered():
                    for h, op, job, dn in handles:
                        do_doc_op(h, op, job, dn)

        return buffered

    @quiet
    def _read_target(self, sc, path):
        if sc["target"] == "cache":
            return read_cache(os.path.dirname(os.path.dirname(path)))
        return read_json(path)

    def _olds(self, sc, targets):
        return [self._read_target(sc, p) for p in targets]

    # ------------------------------------------------------------------
    def _run(self, sc, world, res):
        pp, targets = self._setup(sc, world)
        pre = snapshot(world.root, mtimes=True)
        olds = self._olds(sc, targets)
        if sc["mode"] == "crash":
            self._crash_mode(sc, world, res, pp, targets, pre, olds)
        else:
            self._reader_mode(sc, world, res, pp, targets, pre, olds)

    def _crash_mode(self, sc, world, res, pp, targets, pre, olds):
        P = self.prop
        op = self._writer(sc, pp)
        status, info = run_op(world, op)
        if status != "ok" or info["outcome"] != "ok":
            res["outcome"] = f"fault-free run: {status} {info if status != 'ok' else info.get('exc_str')}"
            res["stats"]["probes"]["faultfree_failed"] = 1
            res["stats"]["notes"] = [res["outcome"][:300]]
            return
        news = self._olds(sc, targets)
        trace = info["trace"]
        res["trace_sample"] = [f"{i} {k} {r}" + (f" -> {r2}" if r2 else "") + (f" {n}B" if n else "")
                               for i, k, r, r2, n in trace][:40]
        # model cross-check of the new content (documents only)
        if sc["target"] not in ("cache", "migdoc"):
            for d, (st, new) in zip(sc["docs"], news):
                want = apply_doc_op(d["old"], d["op"])
                if st == "absent" and want == {}:
                    continue
                if st != "ok" or not same(new, want):
                    res["stats"]["probes"]["new_content_differs_from_model"] = 1
        vs = variants(trace, crash=True, torn=True, errnos=False)
        if sc.get("only_fault") is not None:
            vs = [v for v in vs if v == sc["only_fault"]]
        res["stats"]["variants"] = len(vs)
        for fault in vs:
            restore(world.root, pre)
            op = self._writer(sc, pp)
            from simcore.world import FaultPlan

            status, info = run_op(world, op, FaultPlan([fault]))
            if status != "crash":
                res["stats"]["probes"]["fault_did_not_fire"] = \
                    res["stats"]["probes"].get("fault_did_not_fire", 0) + 1
                continue
            res["nontrivial"] = True
            lab = fault_label(fault)
            res["stats"]["faults"][lab] = res["stats"]["faults"].get(lab, 0) + 1
            step_kind = trace[fault["step"]][1] if fault["step"] < len(trace) else "?"
            for path, old, new in zip(targets, olds, news):
                st, val = self._read_target(sc, path)
                seen = None
                if st == "absent":
                    seen = "absent" if old[0] == "absent" else None
                elif st == "ok":
                    if old[0] == "ok" and same(val, old[1]):
                        seen = "old"
                    elif new[0] == "ok" and same(val, new[1]):
                        seen = "new"
                res["keys"].append(f"{sc['target']}|{self._wkind(sc)}|{lab}|{step_kind}|{seen}")
                if seen is None:
                    detail = (f"after {lab} at step {fault['step']} ({step_kind} "
                              f"{trace[fault['step']][2]}) the file {os.path.relpath(path, world.root)} "
                              f"is {st}: "
                              f"{(val[:80] if isinstance(val, bytes) else str(val)[:120])!r}; "
                              f"old={str(old)[:80]} new={str(new)[:80]}")
                    kindname = "missing" if st == "absent" else ("torn" if st == "bad" else "wrong-content")
                    res["violations"].append(viol(
                        P, f"C10:{sc['target']}:{kindname}-after-{fault['kind']}", detail,
                        f"C10:{sc['target']}:not-old-or-new-after-crash", {"only_fault": fault}))
                    return
            # stray files (the migration moves many other files; only its document write is C10's business)
            if sc["target"] == "migdoc":
                continue
            post = snapshot(world.root)
            bad = self._strays(world, pre, post, targets)
            if bad:
                res["violations"].append(viol(
                    P, f"C10:{sc['target']}:unexpected-entries-after-crash",
                    f"after {lab} at step {fault['step']}: {bad}",
                    f"C10:{sc['target']}:unexpected-entries-after-crash", {"only_fault": fault}))
                return
            if sc.get("followup"):
                world.clock_ms = max(world.clock_ms, info.get("clock_ms", 0))
                world.new_incarnation(f"after-{fault['step']}-{fault['kind']}")
                # near the publishing steps of the first write (and now and then elsewhere) the second write
                # is crashed as well
                muts = [t[0] for t in trace if t[1] in ("rename", "link", "unlink", "open-w")]
                second = fault["step"] in muts[-4:] or (fault["step"] * 7 + len(trace)) % 5 == 0
                bad = self._followup(sc, world, pp, targets, second_crash=second and sc["target"] == "cache")
                res["stats"]["probes"]["followup_writes"] = res["stats"]["probes"].get("followup_writes", 0) + 1
                if bad:
                    res["violations"].append(viol(
                        P, f"C10:{sc['target']}:next-write-after-crash-{bad[0]}",
                        f"after {lab} at step {fault['step']} and a restart, the next complete write left "
                        f"{os.path.relpath(targets[0], world.root)} {bad[1]}",
                        f"C10:{sc['target']}:next-write-after-crash", {"only_fault": fault}))
                    return
        res["outcome"] = f"{len(vs)} fault variants held"

    def _followup(self, sc, world, pp, targets, second_crash=False):
        """The process is back after the crash and writes the same file again, completely: the file must
        then hold exactly that content.  Returns (class suffix, detail) or None."""
        import signac

        project = signac.Project(pp)
        if sc["target"] == "cache":
            # a smaller workspace than the one the dead writer was describing
            with world.observing():
                ids = sorted(raw_project(pp))
            for jid in ids[: max(1, (len(ids) * 3) // 4)]:
                try:
                    project.open_job(id=jid).remove()
                except Exception as e:  # noqa: BLE001
                    return ("raised", f"untouched: removing job {jid[:8]} raised {type(e).__name__}: {e}")
            if second_crash:
                # the next write may die too: whatever the first crash left behind (a stray temporary
                # file, perhaps sharing storage with the live file), the cache file must be what it was or
                # the new content at every crash point of the second write
                from simcore.world import FaultPlan, derive

                old2 = self._read_target(sc, targets[0])
                snap = snapshot(world.root, mtimes=True)
                status, info = run_op(world, lambda: signac.Project(pp).update_cache())
                if status == "ok" and info["outcome"] == "ok":
                    new2 = self._read_target(sc, targets[0])
                    vs = variants(info["trace"], crash=True, torn=True, errnos=False)
                    rng = derive(sc.get("seed", 0), f"followup:{world.seq}")
                    for v in (rng.sample(vs, 3) if len(vs) > 3 else vs):
                        restore(world.root, snap)
                        st2, _ = run_op(world, lambda: signac.Project(pp).update_cache(), FaultPlan([v]))
                        if st2 != "crash":
                            continue
                        got = self._read_target(sc, targets[0])
                        okold = got[0] == old2[0] and (got[0] != "ok" or same(got[1], old2[1]))
                        oknew = got[0] == new2[0] and (got[0] != "ok" or same(got[1], new2[1]))
                        if not (okold or oknew):
                            return ("torn-by-second-crash",
                                    f"{got[0]} after a second crash ({fault_label(v)} at step {v['step']} of the "
                                    f"next update_cache()): neither what the first crash left nor the new content")
                restore(world.root, snap)
            project = signac.Project(pp)
            try:
                project.update_cache()
            except Exception as e:  # noqa: BLE001
                return ("raised", f"unwritten: update_cache() raised {type(e).__name__}: {str(e)[:160]}")
            st, content = self._read_target(sc, targets[0])
            with world.observing():
                want = raw_project(pp)
            if st != "ok":
                return ("unreadable", f"{st} (workspace holds {len(want)} jobs)")
            if set(content) != set(want) or any(not same(content[j], want[j]["sp"][1]) for j in want):
                return ("wrong-content", f"listing {sorted(x[:6] for x in content)}, the workspace holds "
                                         f"{sorted(x[:6] for x in want)}")
            try:
                signac.Project(pp)._read_cache()
            except Exception as e:  # noqa: BLE001
                return ("unreadable", f"unreadable for signac: {type(e).__name__}: {str(e)[:120]}")
            return None
        want = {"followup": "w%d" % (world.seq % 997)}
        try:
            if sc["target"] == "projdoc":
                project.doc.reset(want)
            else:
                project.open_job(sc["jobs"][0]).doc.reset(want)
        except Exception as e:  # noqa: BLE001
            return ("raised", f"unwritten: the document reset raised {type(e).__name__}: {str(e)[:160]}")
        st, val = self._read_target(sc, targets[0])
        if st != "ok" or not same(val, want):
            return ("wrong-content" if st == "ok" else "unreadable", f"{st}: {str(val)[:120]!r}, written {want}")
        return None

    def _wkind(self, sc):
        if sc["target"] == "migdoc":
            return "migration:" + ("pdoc" if sc["mig"]["pdoc"] is not None else "nopdoc")
        if sc["target"] == "cache":
            c = sc["cache"]
            return f"cache:{'pre' if c['pre_update'] else 'nopre'}:+{len(c['add'])}-{c['remove']}"
        return "+".join(d["op"][0] + (":L" if len(str(d["op"])) > 5000 else "") for d in sc["docs"])

    def _strays(self, world, pre, post, targets):
        trel = {os.path.relpath(t, world.root) for t in targets}
        bad = []
        strays = {}
        for r in sorted(set(pre) | set(post)):
            if r.startswith(("home", "tmp")):
                continue
            a, b = pre.get(r), post.get(r)
            if a is not None and b is not None and a[:2] == b[:2]:
                continue
            if r in trel:
                continue
            d, _, base = r.rpartition("/")
            m = STRAY.match(base)
            if b is not None and a is None:
                if m and (d + "/" + m.group(1) if d else m.group(1)) in trel:
                    strays[d + "/" + m.group(1)] = strays.get(d + "/" + m.group(1), 0) + 1
                    continue
                if r.endswith("~") and r[:-1] in trel:
                    strays[r[:-1]] = strays.get(r[:-1], 0) + 1
                    continue
            bad.append(("+" if a is None else "-" if b is None else "~") + r)
        for t, n in strays.items():
            if n > 1:
                bad.append(f"{n} stray files for {t}")
        return bad

    # ------------------------------------------------------------------
    def _reader_fn(self, sc, pp, idx):
        """Reader process: fresh project, read the target through the public API."""
        import signac

        t = sc["target"]

        def read():
            project = signac.Project(pp)
            if t == "projdoc":
                return ("doc", norm(project.doc()))
            if t == "cache":
                out = {}
                for jid in sorted(project._find_job_ids()):
                    try:
                        out[jid] = norm(project.open_job(id=jid).statepoint())
                    except KeyError:
                        out[jid] = "gone"
                return ("sps", out)
            job = project.open_job(sc["jobs"][idx % len(sc["jobs"])])
            return ("doc", norm(job.doc()))

        return read

    def _reader_mode(self, sc, world, res, pp, targets, pre, olds):
        P = self.prop
        # writer step count, fault-free
        op = self._writer(sc, pp)
        status, info = run_op(world, op)
        if status != "ok" or info["outcome"] != "ok":
            res["stats"]["probes"]["faultfree_failed"] = 1
            return
        m = len(info["trace"])
        news_disk = None
        plans = [("fixed", ["W"] * k + ["R"] * 400) for k in range(0, m + 1)]
        for i in range(sc.get("schedules", 4)):
            plans.append((sc.get("policy", "random"), None))
        if sc.get("only_schedule") is not None:
            plans = [("fixed", sc["only_schedule"])]
        fps = set()
        for pi, (policy, fixed) in enumerate(plans):
            restore(world.root, pre)
            op = self._writer(sc, pp)
            ridx = 0
            s = Scheduler(world, f"{sc.get('seed', 0)}:{pi}", policy=policy, schedule=fixed)
            SimRLock.sched = s
            aw = s.spawn("W", op, pid="W")
            ar = s.spawn("R", self._reader_fn(sc, pp, ridx), pid="R")
            try:
                s.run()
            finally:
                SimRLock.sched = None
            fps.add(s.fingerprint())
            res["stats"]["variants"] = res["stats"].get("variants", 0) + 1
            if s.preemptions() >= 2:
                res["nontrivial"] = True
            if news_disk is None:
                news_disk = self._olds(sc, targets)
            bad = None
            if aw.error is not None:
                bad = ("writer-raised", f"writer raised {type(aw.error).__name__}: {aw.error}")
            elif ar.error is not None:
                bad = ("reader-raised", f"reader raised {type(ar.error).__name__}: {str(ar.error)[:200]}")
            elif s.deadlock:
                bad = ("deadlock", "actors blocked forever")
            else:
                kind, val = ar.result
                if kind == "doc":
                    old = olds[0][1] if olds[0][0] == "ok" else {}
                    new = news_disk[0][1] if news_disk[0][0] == "ok" else {}
                    seen = "old" if same(val, old) else "new" if same(val, new) else None
                    res["keys"].append(f"reader|{sc['target']}|{self._wkind(sc)}|{seen}|{s.fingerprint()}")
                    if seen is None:
                        bad = ("reader-saw-neither", f"reader saw {str(val)[:160]!r}; old={str(old)[:80]} "
                                                     f"new={str(new)[:80]}")
                else:
                    res["keys"].append(f"reader|cache|{self._wkind(sc)}|{s.fingerprint()}")
                    for jid, sp in val.items():
                        if sp != "gone" and cid(sp) != jid:
                            bad = ("reader-wrong-sp", f"reader got {sp} for {jid}")
            if bad:
                res["violations"].append(viol(
                    P, f"C10:{sc['target']}:{bad[0]}",
                    f"{bad[1]} | schedule={''.join(s.taken)[:200]}",
                    f"C10:{sc['target']}:{bad[0]}", {"only_schedule": list(s.taken)}))
                res["ikeys"] = sorted(fps)
                return
        res["ikeys"] = sorted(fps)
        res["outcome"] = f"{len(plans)} schedules held"

"""Engine `crashops` (C11): crashes and I/O errors inside lifecycle operations.

One scenario = a pre-state (1-2 projects, jobs with documents and marker files)
and one lifecycle operation.  The operation's fault-free step trace is recorded
in a forked clone; then every step x {death before, torn write, EIO / ENOSPC /
EACCES / EROFS / EXDEV as applicable} is executed from the same snapshot.
After a death the disk is inspected with fresh handles (I1-I4); after a handled
error the clone also reports what the caller saw.
"""

import os

from machines.common import (DOC_FILE, HEX32, SP_FILE, check_project, cid, gen_value, job_valid,
                             norm, quiet, raw_project, same, viol, write_payload)
from simcore.driver import EngineBase, generic_shrink
from simcore.faultenum import fault_label, run_op, variants
from simcore.sched import install_locks, install_pools
from simcore.world import FaultPlan, SimWorld, diff_snap, restore, snapshot

KEYS = "abc"
VALS = [0, 1, 2, "x", 1.5, True, None, [1, 2], {"n": 1}]

REMOVALS = ("remove", "clear", "reset")
ANCHORED = ("init_fresh", "init_existing", "sp_set", "sp_del", "sp_assign", "update_sp", "move")


def small_sp(rng):
    n = rng.randrange(1, 3)
    return {k: rng.choice(VALS) for k in rng.sample(KEYS, n)}


class Engine(EngineBase):
    def budget(self, tier):
        return (600, 55.0) if tier == "quick" else (16000, 900.0)

    def rule(self):
        return ("seeded scenario = pre-state (1-2 projects, 1-4 jobs with document + nested marker files, "
                "destination free / initialised / empty directory, optionally a persistent cache) + one lifecycle "
                "operation (init - explicit or through the first document access -, state "
                "point change by item set / delete / assignment / update_statepoint, move, clone, remove, "
                "clear, reset) through a by-state-point / by-id / pre-loaded handle; the single-fault space "
                "of the operation's trace is enumerated completely (death before every mutating step, torn "
                "prefixes of every write, every applicable errno at every step), double faults sampled. "
                "distinct = (operation, destination kind, fault kind, kind of the faulted step, caller "
                "outcome, resulting state class); non-trivial = the fault fired")

    def generate(self, rng, tier):
        knobs = {
            "chunk": rng.choice(["none", "split2", "small"]),
            "listing": rng.choice(["shuffle", "sorted", "reverse"]),
            "clock": rng.choice(["inc", "coarse"]),
            # shutil.rmtree walks by path or (as CPython does on Linux) by directory descriptors
            "fd_rmtree": rng.random() < 0.5,
        }
        njobs = rng.randrange(1, 4)
        jobs = []
        while len(jobs) < njobs:
            sp = small_sp(rng)
            if all(not same(sp, j["sp"]) for j in jobs):
                jobs.append({"sp": sp, "proj": 0, "files": self._files(rng), "doc": rng.random() < 0.7})
        kind = rng.choice(["init_fresh", "init_existing", "sp_set", "sp_set", "sp_del", "sp_assign",
                           "update_sp", "move", "move", "clone", "clone", "remove", "clear", "reset"])
        j = rng.randrange(njobs)
        old = jobs[j]["sp"]
        dest = rng.choice(["free", "free", "free", "init", "empty"])
        op = [kind, j]
        new_sp = None
        if kind == "init_fresh":
            sp = small_sp(rng)
            while any(same(sp, x["sp"]) for x in jobs):
                sp = {**small_sp(rng), "fresh": rng.randrange(100)}
            # explicitly, or implicitly through the first document access of a new job
            op = [kind, sp, rng.choice(["init", "init", "doc"])]
            dest = rng.choice(["free", "free", "empty"]) if op[2] == "init" else "free"
            new_sp = sp
        elif kind == "sp_set":
            k = rng.choice(KEYS + "d")
            v = rng.choice(VALS + [99])
            while k in old and same(old[k], v):
                v = rng.randrange(100, 200)
            op = [kind, j, k, v]
            new_sp = {**old, k: v}
        elif kind == "sp_del":
            if len(old) < 2:
                old["z"] = 5
            k = rng.choice(sorted(old))
            op = [kind, j, k]
            new_sp = {a: b for a, b in old.items() if a != k}
        elif kind == "sp_assign":
            new_sp = {**small_sp(rng), "as": rng.randrange(50)}
            op = [kind, j, new_sp]
        elif kind == "update_sp":
            upd = {"u": rng.randrange(50)}
            ow = rng.random() < 0.4
            if ow:
                upd[rng.choice(sorted(old))] = "ow%d" % rng.randrange(9)
            op = [kind, j, upd, ow]
            new_sp = {**old, **upd}
        elif kind in ("move", "clone"):
            new_sp = old
        if kind in ("sp_assign", "update_sp") and new_sp is not None:
            # two input classes for which the dependency's in-place update keeps the old value (None over a
            # nested collection; equal but differently typed scalars) are C04's findings, not fault behaviour
            for k in list(new_sp):
                if k in old:
                    o, v = old[k], new_sp[k]
                    if (v is None and isinstance(o, (list, dict))) or \
                            (not isinstance(o, (list, dict)) and not isinstance(v, (list, dict))
                             and o == v and type(o) is not type(v)):
                        new_sp[k] = "t%d" % rng.randrange(9)
                        if kind == "update_sp":
                            op[2][k] = new_sp[k]
        if kind in ("init_existing", "remove", "clear", "reset"):
            dest = "free"
        sc = {"knobs": knobs, "jobs": jobs, "op": op, "dest": dest,
              "handle": rng.choice(["by_sp", "by_id", "loaded"]),
              "double": rng.randrange(0, 3) if tier == "quick" else rng.randrange(2, 10)}
        if new_sp is not None and kind not in ("init_fresh",) and dest == "init":
            # a job already initialised at the destination, with its own payload
            jobs.append({"sp": new_sp, "proj": 1 if kind in ("move", "clone") else 0,
                         "files": self._files(rng), "doc": True})
        # drop accidental duplicates (two jobs with the destination state point in one project)
        seen, uniq = set(), []
        for jb in jobs:
            key = (jb["proj"], cid(jb["sp"]))
            if key not in seen:
                seen.add(key)
                uniq.append(jb)
        sc["jobs"] = uniq
        sc["new_sp"] = new_sp
        # a persistent state point cache written before the operation: what the restarted session
        # reports must not depend on it
        sc["cache"] = rng.choice(["none", "none", "file"])
        return sc

    def _files(self, rng):
        names = ["f1", "sub/f2", "sub/deep/f3", "g.txt", ".hid", "sub/.dot/f4"]
        return rng.sample(names, rng.randrange(0, 4))

    def shrink(self, scenario):
        # drop jobs other than the operated one / the colliding one
        op = scenario["op"]
        j = op[1] if isinstance(op[1], int) else None
        jobs = scenario["jobs"]
        for i in range(len(jobs)):
            if i == j:
                continue
            if scenario["dest"] == "init" and same(jobs[i]["sp"], scenario.get("new_sp")):
                continue
            c = dict(scenario)
            c["jobs"] = jobs[:i] + jobs[i + 1:]
            if j is not None and i < j:
                c["op"] = [op[0], j - 1] + list(op[2:])
            yield c
        for i, jb in enumerate(jobs):
            if jb["files"]:
                c = dict(scenario)
                c["jobs"] = [dict(x) for x in jobs]
                c["jobs"][i]["files"] = jb["files"][:-1]
                yield c
        if scenario["knobs"].get("chunk") != "none":
            c = dict(scenario)
            c["knobs"] = dict(scenario["knobs"], chunk="none")
            yield c
        if scenario["handle"] != "by_sp":
            c = dict(scenario)
            c["handle"] = "by_sp"
            yield c

    def sample(self, scenario, result):
        return {"op": scenario["op"], "dest": scenario["dest"], "handle": scenario["handle"],
                "jobs": [{"sp": j["sp"], "files": j["files"]} for j in scenario["jobs"]],
                "trace": result.get("trace_sample"), "outcome": result.get("outcome"),
                "fault_plan_size": result.get("stats", {}).get("variants")}

    # ------------------------------------------------------------------
    def execute(self, sc, ctx):
        install_locks()
        install_pools(2)
        res = {"violations": [], "keys": [], "stats": {"faults": {}, "probes": {}},
               "nontrivial": False}
        root = os.path.join(ctx.scratch, "w")
        with SimWorld(root, seed=sc.get("seed", 0), knobs=sc["knobs"]) as world:
            self._run(sc, world, res)
            res["digest"] = world.digest()
            res["stats"]["steps"] = world.seq
            res["stats"]["sim_ms"] = world.clock_ms - 1_000_000_000_000
        return res

    def _setup(self, sc, world):
        import signac

        pps = [world.p("p1"), world.p("p2")]
        projects = [signac.init_project(p) for p in pps]
        lin = {}
        for i, jb in enumerate(sc["jobs"]):
            job = projects[jb["proj"]].open_job(jb["sp"]).init()
            if jb["doc"]:
                job.doc.reset({"lin": i, "payload": [i, "d"]})
            write_payload(job.path, {f: f"MARK:{i}:{f}\n" * 3 for f in jb["files"]})
            lin[i] = {"sps": [jb["sp"]], "proj": jb["proj"], "id": cid(jb["sp"]), "files": jb["files"],
                      "doc": jb["doc"]}
        if sc.get("cache") == "file":
            for p in projects:
                p.update_cache()
        kind = sc["op"][0]
        if sc["dest"] == "empty" and sc.get("new_sp") is not None:
            tp = pps[1] if kind in ("move", "clone") else pps[0]
            d = os.path.join(tp, "workspace", cid(sc["new_sp"]))
            with world.observing():
                if not os.path.exists(d):
                    os.makedirs(d)
        return pps, lin

    def _make_op(self, sc, pps):
        """Fresh handles, then the operation closure."""
        import signac

        p1 = signac.Project(pps[0])
        p2 = signac.Project(pps[1])
        op = sc["op"]
        kind = op[0]
        if kind == "init_fresh":
            job = p1.open_job(op[1])
            if len(op) > 2 and op[2] == "doc":
                # the implicit initialisation alone (reading the still absent document writes nothing)
                return lambda: job.doc()
            return lambda: job.init()
        jb = sc["jobs"][op[1]]
        if sc["handle"] == "by_id":
            job = p1.open_job(id=cid(jb["sp"]))
        else:
            job = p1.open_job(jb["sp"])
            if sc["handle"] == "loaded":
                job.statepoint()
                job.doc()
        if kind == "init_existing":
            return lambda: job.init()
        if kind == "sp_set":
            def f():
                job.sp[op[2]] = op[3]
            return f
        if kind == "sp_del":
            def f():
                del job.sp[op[2]]
            return f
        if kind == "sp_assign":
            def f():
                job.statepoint = op[2]
            return f
        if kind == "update_sp":
            return lambda: job.update_statepoint(op[2], overwrite=op[3])
        if kind == "move":
            return lambda: job.move(p2)
        if kind == "clone":
            return lambda: p2.clone(job)
        if kind == "remove":
            return lambda: job.remove()
        if kind == "clear":
            return lambda: job.clear()
        if kind == "reset":
            return lambda: job.reset()
        raise ValueError(kind)

    # ------------------------------------------------------------------
    @quiet
    def _observe(self, pps):
        return [raw_project(p) for p in pps]

    @quiet
    def _all_dirs(self, pps):
        """Every workspace entry (any name) with its file snapshot, both projects."""
        out = {}
        for pi, p in enumerate(pps):
            ws = os.path.join(p, "workspace")
            if not os.path.isdir(ws):
                continue
            for name in sorted(os.listdir(ws)):
                d = os.path.join(ws, name)
                if os.path.isdir(d) and not os.path.islink(d):
                    out[(pi, name)] = snapshot(d)
        return out

    def _invariants(self, sc, pps, lin, pre_dirs, affected, label):
        """I1-I4 on the current disk.  Returns (class, message) or None."""
        kind = sc["op"][0]
        dirs = self._all_dirs(pps)
        # I1: every other job byte-identical
        for i, L in lin.items():
            if i == affected:
                continue
            key = (L["proj"], L["id"])
            if pre_dirs.get(key) != dirs.get(key):
                return ("I1:other-job-changed",
                        f"{label}: job {L['id'][:8]} (lineage {i}) changed: "
                        f"{diff_snap(pre_dirs.get(key) or {}, dirs.get(key) or {})}")
        # I2: affected lineage's data under exactly one directory
        if affected is not None and kind not in REMOVALS:
            L = lin[affected]
            key0 = (L["proj"], L["id"])
            pre = pre_dirs[key0]
            data = {r: e for r, e in pre.items() if e[0] == "f" and r != SP_FILE}
            if kind == "clone":
                if dirs.get(key0) != pre:
                    return ("I2:clone-source-changed",
                            f"{label}: source changed: {diff_snap(pre, dirs.get(key0) or {})}")
            elif data:
                holders = {}
                for key, snap in dirs.items():
                    have = [r for r, e in data.items() if snap.get(r) == e]
                    if have:
                        holders[key] = have
                # a colliding destination job may carry byte-identical *document-free* names; the
                # marker text is unique per lineage, so only real copies of this lineage match
                full = [k for k, have in holders.items() if len(have) == len(data)]
                if len(full) != 1 or len(holders) != 1:
                    return ("I2:data-lost-or-duplicated",
                            f"{label}: data files of lineage {affected} found in {holders} "
                            f"(need all {sorted(data)} under exactly one directory)")
        # I3 / I4
        ok_ids = []
        for pi, p in enumerate(pps):
            try:
                ok, bad = check_project(p)
            except Exception as e:  # noqa: BLE001
                return ("I3:check-raised-other",
                        f"{label}: check() raised {type(e).__name__}: {str(e)[:200]}")
            raw = raw_project(p)
            for jid, rj in raw.items():
                valid = job_valid(rj, jid)
                if not valid and jid not in bad:
                    return ("I3:undetected-invalid-dir",
                            f"{label}: {jid} in project {pi + 1} neither validates nor is reported by "
                            f"check() (sp={str(rj['sp'])[:80]})")
                if valid:
                    ok_ids.append((pi, jid, rj))
        allowed_fresh = [sc["op"][1]] if kind == "init_fresh" else []
        for pi, jid, rj in ok_ids:
            sp = rj["sp"][1]
            snap = dirs.get((pi, jid), {})
            owners = set()
            for r, e in snap.items():
                if e[0] == "f" and e[1].startswith(b"MARK:"):
                    try:
                        owners.add(int(e[1].split(b":")[1]))
                    except ValueError:
                        pass
            if rj["doc"][0] == "ok" and isinstance(rj["doc"][1], dict) and "lin" in rj["doc"][1]:
                owners.add(rj["doc"][1]["lin"])
            for o in owners:
                if o in lin and not any(same(sp, s) for s in lin[o]["sps"]):
                    return ("I4:forged-job",
                            f"{label}: directory {jid} validates with {sp} but holds data of lineage "
                            f"{o} whose state points are {lin[o]['sps']}")
            if not owners:
                known = [s for L in lin.values() for s in L["sps"]] + allowed_fresh
                if not any(same(sp, s) for s in known):
                    return ("I4:forged-job", f"{label}: directory {jid} validates with unknown {sp}")
        return None

    # ------------------------------------------------------------------
    def _run(self, sc, world, res):
        P = self.prop
        pps, lin = self._setup(sc, world)
        kind = sc["op"][0]
        affected = sc["op"][1] if isinstance(sc["op"][1], int) else None
        if affected is not None and sc.get("new_sp") is not None:
            lin[affected]["sps"].append(sc["new_sp"])
        pre = snapshot(world.root, mtimes=True)
        pre_plain = snapshot(world.root)
        pre_dirs = self._all_dirs(pps)
        op = self._make_op(sc, pps)
        status, info = run_op(world, op)
        if status != "ok":
            res["stats"]["probes"]["faultfree_harness_" + status] = 1
            res["stats"]["notes"] = [str(info)[-300:]]
            return
        post_ok = snapshot(world.root)
        # the state point the fault-free run actually produced belongs to the lineage too (C11 is
        # about faults; whether the fault-free result is the requested one is C04's question)
        if affected is not None:
            for raw in self._observe(pps):
                for jid, rj in raw.items():
                    if job_valid(rj, jid) and rj["doc"][0] == "ok" and isinstance(rj["doc"][1], dict) \
                            and rj["doc"][1].get("lin") == affected:
                        lin[affected]["sps"].append(rj["sp"][1])
            if sc.get("new_sp") is not None and not any(
                    job_valid(rj, cid(sc["new_sp"])) for raw in self._observe(pps)
                    for jid, rj in raw.items() if jid == cid(sc["new_sp"])) and info["outcome"] == "ok" \
                    and kind not in ("move", "clone"):
                res["stats"]["probes"]["faultfree_result_not_requested_sp"] = 1
                # a payload-free job: find the directory that appeared instead
                pre_ids = {k for k in pre_dirs}
                for pi, raw in enumerate(self._observe(pps)):
                    for jid, rj in raw.items():
                        if (pi, jid) not in pre_ids and job_valid(rj, jid):
                            lin[affected]["sps"].append(rj["sp"][1])
        trace = info["trace"]
        ff_outcome = info["outcome"] + (":" + info["exc_type"] if info["outcome"] == "exc" else "")
        res["trace_sample"] = [f"{i} {k} {r}" + (f" -> {r2}" if r2 else "") + (f" {n}B" if n else "")
                               for i, k, r, r2, n in trace][:48]
        res["outcome"] = f"fault-free: {ff_outcome}, {len(trace)} steps"
        # the fault-free end state must itself satisfy the invariants
        bad = self._invariants(sc, pps, lin, pre_dirs, affected, "fault-free run")
        if bad and info["outcome"] == "ok":
            res["stats"]["probes"]["faultfree_breaks_" + bad[0]] = 1
            res["stats"]["notes"] = [bad[1][:300]]
        vs = variants(trace)
        if sc.get("only_faults") is not None:
            plans = [sc["only_faults"]]
        else:
            plans = [[v] for v in vs]
        nsingle = len(plans)
        rng = None
        doubles_left = sc.get("double", 0) if sc.get("only_faults") is None else 0
        if doubles_left:
            from simcore.world import derive
            rng = derive(sc.get("seed", 0), "fault")
        res["stats"]["variants"] = 0
        errno_traces = []
        pi = 0
        while pi < len(plans):
            faults = plans[pi]
            pi += 1
            restore(world.root, pre)
            op = self._make_op(sc, pps)
            status, info = run_op(world, op, FaultPlan(faults))
            res["stats"]["variants"] += 1
            lab = "+".join(fault_label(f) for f in faults)
            first = faults[0]
            skind = trace[first["step"]][1] if first["step"] < len(trace) else "?"
            if status not in ("ok", "crash"):
                res["stats"]["probes"]["variant_harness_" + status] = \
                    res["stats"]["probes"].get("variant_harness_" + status, 0) + 1
                continue
            if not info["fired"]:
                res["stats"]["probes"]["fault_did_not_fire"] = \
                    res["stats"]["probes"].get("fault_did_not_fire", 0) + 1
                continue
            res["nontrivial"] = True
            for f in info["fired"]:
                fl = fault_label(f)
                res["stats"]["faults"][fl] = res["stats"]["faults"].get(fl, 0) + 1
            label = (f"op={sc['op'][0]} dest={sc['dest']} fault={lab} at step "
                     f"{[f['step'] for f in faults]} ({skind} {trace[first['step']][2] if first['step'] < len(trace) else ''})")
            bad = self._invariants(sc, pps, lin, pre_dirs, affected, label)
            state = "?"
            if bad is None and status == "ok":
                # handled error: what did the caller see, and what is on disk?
                now = snapshot(world.root)
                same_pre = self._same_projects(now, pre_plain)
                same_post = self._same_projects(now, post_ok)
                detect = False
                if not (same_pre or same_post):
                    for p in pps:
                        ok, ids = check_project(p)
                        detect = detect or not ok
                state = "pre" if same_pre else "post" if same_post else "detectable" if detect else "other"
                raised = info["outcome"] == "exc"
                if not raised and not same_post:
                    bad = ("E:silent-partial-success",
                           f"{label}: the caller saw success but the disk differs from a complete "
                           f"success: {self._proj_diff(now, post_ok)}")
                elif raised and kind in ANCHORED and state == "other":
                    bad = ("E:undetectable-partial-state",
                           f"{label}: caller got {info['exc_type']} but the state is neither the "
                           f"pre-state, nor the complete post-state, nor reported by check(): "
                           f"vs pre {self._proj_diff(now, pre_plain)}")
                if len(faults) == 1 and first["kind"] == "errno" and doubles_left:
                    errno_traces.append((first, info["trace"]))
            elif bad is None:
                state = "crashed"
            outcome = status if status == "crash" else info["outcome"] + ":" + str(info.get("exc_type"))
            res["keys"].append(f"{kind}|{sc['dest']}|{lab}|{skind}|{outcome}|{state}")
            if bad:
                res["violations"].append(viol(
                    P, f"C11:{kind}:{bad[0]}:{'+'.join(f['kind'] for f in faults)}", bad[1],
                    f"C11:{kind}:{bad[0]}", {"only_faults": faults}))
                return
            # after the singles: sample double faults (second fault after the first, in the
            # trace the first fault produced)
            if pi == nsingle and doubles_left and errno_traces:
                for _ in range(doubles_left):
                    f1, tr = rng.choice(errno_traces)
                    later = [t for t in tr if t[0] > f1["step"]]
                    if not later:
                        continue
                    t2 = rng.choice(later)
                    cands = [v for v in variants([t2]) if v["kind"] != "torn" or True]
                    if not cands:
                        continue
                    plans.append([f1, rng.choice(cands)])
                doubles_left = 0

    def _same_projects(self, a, b):
        return self._strip(a) == self._strip(b)

    def _strip(self, snap):
        return {r: e[:2] for r, e in snap.items() if r.startswith(("p1", "p2"))}

    def _proj_diff(self, a, b):
        return diff_snap(self._strip(a), self._strip(b))

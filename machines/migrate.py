"""Engine `migrate` (C20): incompatible schema versions are refused; migration preserves jobs.

The quantifier is over configurations, which are enumerated (mixed radix over
the run index; the thorough tier walks the whole product, the quick tier a
seeded slice): schema version {absent, 0, 1, 2, 3, 10} x project name {default
'None', plain, with spaces / punctuation / comma / quote} x workspace_dir
{default, relative custom, nested custom, colliding with an existing
'workspace'} x legacy cache / shell-history files x 0-5 jobs with documents and
files x existing project document.

What the simulator adds: the refusal oracle is decided on the call log (zero
mutating calls while Project / get_project / init_project raise), and the
multi-step migration runs under a permuted directory-listing order.
"""

import gzip
import json
import os

from machines.common import (CACHE_REL, DOC_FILE, PDOC_FILE, SP_FILE, cid, gen_sp, norm, quiet, read_json, same,
                             viol, write_payload)
from simcore.driver import EngineBase
from simcore.sched import install_locks, install_pools
from simcore.world import MUTATING, O, SimWorld, snapshot

# "-legacy": newer version, old layout; "absent-new": current layout (.signac/config) without a
# schema_version entry, which counts as version 1 and must be refused like any other old version
VERSIONS = ["absent", 0, 1, 2, 3, 10, "3-legacy", "10-legacy", "absent-new"]
NAMES = ["None", "myproject", "my project v2", "proj-1.0_(test)", "a, b", "it's \"quoted\" #1"]
WORKSPACES = ["default", "custom", "nested", "colliding"]
NJOBS = [0, 1, 3, 5]
LEGACY_FILES = ["none", "both", "cache", "history"]
SPACE = len(VERSIONS) * len(NAMES) * len(WORKSPACES) * len(LEGACY_FILES) * len(NJOBS) * 2


class Engine(EngineBase):
    def budget(self, tier):
        return (SPACE, 110.0) if tier == "quick" else (SPACE * 5, 900.0)

    def rule(self):
        return (f"configurations enumerated by mixed radix over the run index (product of {SPACE}: 9 version/layout spellings x 6 "
                "names x 4 workspace settings x legacy files (none / cache and history / cache only / history only) x 4 job counts x project document); state points, "
                "listing order and chunking drawn from the seed. both tiers walk the whole product (quick once, thorough five times with different "
                "seeds for state points, listing order and chunking). distinct = configuration tuples; non-trivial = a refusal or a migration was checked")

    def extra_evidence(self, stats):
        return {"configuration_product_size": SPACE,
                "explanation": "run index i executes configuration i mod SPACE (mixed radix over version/layout, "
                               "name, workspace setting, legacy files, job count, project document); a run count "
                               ">= SPACE therefore walks the whole product; state points, listing order and write "
                               "chunking are seeded, so this is not an exhaustive enumeration of inputs",
                "exhaustive": False}

    def generate_indexed(self, index, rng, tier):
        # a stride coprime to SPACE: any prefix of the run indices is spread over all dimensions, and SPACE
        # consecutive indices still visit every configuration exactly once
        i = (index * 2501) % SPACE
        cfg = {}
        for key, vals in (("version", VERSIONS), ("name", NAMES), ("workspace", WORKSPACES),
                          ("legacy_files", LEGACY_FILES), ("njobs", NJOBS), ("pdoc", [False, True])):
            cfg[key] = vals[i % len(vals)]
            i //= len(vals)
        sps = []
        while len(sps) < cfg["njobs"]:
            sp = gen_sp(rng, "abc", 1)
            if all(not same(sp, s) for s in sps):
                sps.append(sp)
        knobs = {"listing": rng.choice(["shuffle", "sorted", "reverse"]), "chunk": rng.choice(["none", "split2"]),
                 "clock": "inc"}
        return {"knobs": knobs, "cfg": cfg, "sps": sps}

    def generate(self, rng, tier):
        return self.generate_indexed(rng.randrange(SPACE), rng, "thorough")

    def shrink(self, scenario):
        for i in range(len(scenario["sps"])):
            c = dict(scenario)
            c["sps"] = scenario["sps"][:i] + scenario["sps"][i + 1:]
            yield c
        for key, simple in (("legacy_files", "none"), ("pdoc", False), ("name", "None"), ("workspace", "default")):
            if scenario["cfg"][key] != simple:
                c = dict(scenario)
                c["cfg"] = dict(scenario["cfg"], **{key: simple})
                yield c

    def sample(self, scenario, result):
        return {"cfg": scenario["cfg"], "sps": scenario["sps"], "outcome": result.get("outcome")}

    def execute(self, sc, ctx):
        import signac

        install_locks()
        install_pools(2)
        res = {"violations": [], "keys": [], "stats": {"faults": {}, "probes": {}}, "nontrivial": False}
        root = os.path.join(ctx.scratch, "w")
        with SimWorld(root, seed=sc.get("seed", 0), knobs=sc["knobs"]) as world:
            Run(sc, world, res, signac).go()
            res["digest"] = world.digest()
            res["stats"]["steps"] = world.seq
            res["stats"]["sim_ms"] = world.clock_ms - 1_000_000_000_000
        return res


class Run:
    def __init__(self, sc, world, res, signac):
        self.sc, self.world, self.res, self.signac = sc, world, res, signac
        self.cfg = sc["cfg"]

    def v(self, cls, msg, fp=None):
        self.res["violations"].append(viol("C20", cls, msg, fp or cls))

    def probe(self, k):
        self.res["stats"]["probes"][k] = self.res["stats"]["probes"].get(k, 0) + 1

    # ---- building layouts (harness side, original functions) ------------------------------
    @quiet
    def build(self, pp):
        from signac._vendor import configobj

        cfg = self.cfg
        ver = cfg["version"]
        os.makedirs(pp)
        legacy = ver in ("absent", 0, 1) or str(ver).endswith("-legacy")
        if str(ver).endswith("-legacy"):
            ver = int(str(ver).split("-")[0])
        wsname = {"default": "workspace", "custom": "data_ws", "nested": "data/ws/deep",
                  "colliding": "my_ws"}[cfg["workspace"]]
        if not legacy:
            wsname = "workspace"
        if legacy:
            c = configobj.ConfigObj()
            c.filename = os.path.join(pp, "signac.rc")
            c["project"] = cfg["name"]
            if cfg["workspace"] != "default":
                c["workspace_dir"] = wsname
            if ver != "absent":
                c["schema_version"] = str(ver)
            c.write()
        else:
            os.makedirs(os.path.join(pp, ".signac"))
            c = configobj.ConfigObj()
            c.filename = os.path.join(pp, ".signac", "config")
            if ver == "absent-new":
                if cfg["pdoc"]:
                    c["statepoint_cache_miss_warning_threshold"] = "100"
            else:
                c["schema_version"] = str(ver)
            c.write()
            if ver == "absent-new" and not os.path.exists(c.filename):
                with O.io_open(c.filename, "wb"):
                    pass
        ws = os.path.join(pp, wsname)
        if legacy or self.sc["sps"] or cfg["workspace"] in ("default", "colliding"):
            os.makedirs(ws)
        # else: a project of a newer schema whose workspace directory does not exist (yet)
        if legacy and cfg["workspace"] == "colliding":
            os.makedirs(os.path.join(pp, "workspace"))
            with O.io_open(os.path.join(pp, "workspace", "keep.txt"), "wb") as f:
                f.write(b"in the way")
        jobs = {}
        for i, sp in enumerate(self.sc["sps"]):
            jid = cid(sp)
            d = os.path.join(ws, jid)
            os.makedirs(d)
            with O.io_open(os.path.join(d, SP_FILE), "wb") as f:
                f.write(json.dumps(sp).encode())
            doc = {"i": i, "name": f"job{i}"}
            with O.io_open(os.path.join(d, DOC_FILE), "wb") as f:
                f.write(json.dumps(doc).encode())
            write_payload(d, {"f1": f"DATA:{i}", "sub/g": f"DATA:{i}:g"})
            jobs[jid] = {"sp": norm(sp), "doc": doc}
        if cfg["pdoc"]:
            with O.io_open(os.path.join(pp, PDOC_FILE), "wb") as f:
                f.write(json.dumps({"existing": [1, 2], "k": "v"}).encode())
        lf = cfg["legacy_files"]
        if lf != "none":
            cache = {jid: j["sp"] for jid, j in jobs.items()}
            if legacy:
                if lf in ("both", "cache"):
                    with O.io_open(os.path.join(pp, ".signac_sp_cache.json.gz"), "wb") as f:
                        f.write(gzip.compress(json.dumps(cache).encode()))
                if lf in ("both", "history"):
                    with O.io_open(os.path.join(pp, ".signac_shell_history"), "wb") as f:
                        f.write(b"print(project)\n")
            elif lf in ("both", "cache"):
                with O.io_open(os.path.join(pp, CACHE_REL), "wb") as f:
                    f.write(gzip.compress(json.dumps(cache).encode()))
        return wsname, jobs

    @quiet
    def job_trees(self, ws):
        out = {}
        if not os.path.isdir(ws):
            return out
        for name in sorted(O.listdir(ws)):
            d = os.path.join(ws, name)
            if os.path.isdir(d):
                out[name] = snapshot(d)
        return out

    # ------------------------------------------------------------------
    def refused(self, label, fn, pp, snap0):
        """fn must raise IncompatibleSchemaVersion without a single mutating call."""
        from signac.errors import IncompatibleSchemaVersion

        log0 = len(self.world.log)
        try:
            fn()
            exc = None
        except Exception as e:  # noqa: BLE001
            exc = e
        muts = [e for e in self.world.log[log0:] if e[2] in MUTATING]
        self.probe("refusal_checked")
        if not isinstance(exc, IncompatibleSchemaVersion):
            self.v("C20:refusal:not-refused",
                   f"{label} on a version-{self.cfg['version']} project ended with "
                   f"{type(exc).__name__ if exc else 'success'}: {str(exc)[:160]}",
                   f"C20:refusal:{label.split('(')[0]}:{type(exc).__name__ if exc else 'opened'}")
        if muts:
            self.v("C20:refusal:modified", f"{label} made mutating calls on the refused project: {muts[:3]}",
                   f"C20:refusal:{label.split('(')[0]}:mutating-calls")
        if snapshot(pp, mtimes=True) != snap0:
            self.v("C20:refusal:snapshot-changed", f"{label} changed the refused project")

    def go(self):
        from signac.migration import apply_migrations

        signac = self.signac
        cfg = self.cfg
        pp = self.world.p("proj")
        if self.sc.get("seed", 0) % 3 == 0:
            # the same process has looked at this path before, when nothing was there (a verdict
            # remembered from then must not outlive the directory's content)
            with self.world.observing():
                os.makedirs(pp)
            for probe in (lambda: signac.get_project(pp), lambda: signac.Project(pp)):
                try:
                    probe()
                    self.v("C20:probe:empty-directory-opened", "an empty directory was opened as a project")
                except LookupError:
                    pass
            with self.world.observing():
                os.rmdir(pp)
            self.probe("path_probed_while_empty")
        wsname, jobs = self.build(pp)
        ver = cfg["version"]
        vnum = 0 if ver == "absent" else 1 if ver == "absent-new" else int(str(ver).split("-")[0])
        legacy = (vnum < 2 and ver != "absent-new") or str(ver).endswith("-legacy")
        snap0 = snapshot(pp, mtimes=True)
        trees0 = self.job_trees(os.path.join(pp, wsname))
        key = f"{ver}|{cfg['name']}|{cfg['workspace']}|{cfg['legacy_files']}|{cfg['njobs']}|{cfg['pdoc']}"
        self.res["keys"].append(key)
        self.res["nontrivial"] = True
        # ---- (R) refusal for every version != 2 -----------------------------------------------
        if vnum != 2:
            subdirs = [pp]
            with self.world.observing():
                os.makedirs(os.path.join(pp, "plain", "sub"), exist_ok=True)
            snap0 = snapshot(pp, mtimes=True)
            subdirs.append(os.path.join(pp, "plain", "sub"))
            if jobs and legacy is False:
                subdirs.append(os.path.join(pp, wsname, sorted(jobs)[0]))
            self.refused("Project()", lambda: signac.Project(pp), pp, snap0)
            for d in subdirs:
                self.refused(f"get_project({os.path.relpath(d, pp)})", lambda d=d: signac.get_project(d), pp, snap0)
            self.refused("init_project()", lambda: signac.init_project(pp), pp, snap0)
        if ver == "absent-new":
            # what a migration makes of a current-layout configuration without a version is not part of
            # the property; only the refusal is
            self.probe("refusal_without_version_entry")
            return
        # ---- migration --------------------------------------------------------------------------
        import contextlib
        import io

        def apply_migrations(path, _orig=apply_migrations):
            with contextlib.redirect_stderr(io.StringIO()):
                return _orig(path)

        log0 = len(self.world.log)
        try:
            apply_migrations(pp)
            exc = None
        except Exception as e:  # noqa: BLE001
            exc = e
        self.res["outcome"] = f"apply_migrations: {type(exc).__name__ if exc else 'ok'}"
        snap1 = snapshot(pp, mtimes=True)
        if vnum == 2:
            muts = [e for e in self.world.log[log0:] if e[2] in MUTATING
                    and not str(e[3]).endswith(".SIGNAC_PROJECT_MIGRATION_LOCK")
                    and not (e[2] == "mkdir" and e[3] == "proj")]  # filelock's makedirs(exist_ok) attempt
            if muts:
                self.v("C20:migrate:up-to-date-not-noop",
                       f"apply_migrations on an up-to-date project made mutating calls {muts[:3]}",
                       "C20:migrate:up-to-date-not-noop:writes")
            if exc is not None or self.strip(snap1) != self.strip(snap0):
                self.v("C20:migrate:up-to-date-not-noop",
                       f"apply_migrations on an up-to-date project: {type(exc).__name__ if exc else 'changed'} "
                       f"{self.sdiff(snap0, snap1)}")
            self.probe("noop_checked")
            return
        if vnum > 2 or (legacy and cfg["workspace"] == "colliding"):
            if exc is None:
                self.v("C20:migrate:unmigratable-accepted", f"apply_migrations succeeded on {key}")
            # the chain bumps the version after every completed step (0 -> 1 is a completed step even if
            # 1 -> 2 then fails), so only the configuration file may differ; jobs, documents and every
            # other file must be untouched
            def rest(snap):
                return {r: e for r, e in self.strip(snap).items() if r not in ("signac.rc", ".signac/config")}
            if rest(snap1) != rest(snap0) or (vnum > 2 and self.strip(snap1) != self.strip(snap0)):
                self.v("C20:migrate:failed-but-changed",
                       f"apply_migrations raised {type(exc).__name__ if exc else None} and changed "
                       f"{self.sdiff(snap0, snap1)}",
                       "C20:migrate:failed-but-changed:" + ("too-new" if vnum > 2 else "colliding-workspace"))
            self.probe("unmigratable_checked")
            return
        # migratable legacy layout
        self.probe("migration_checked")
        if exc is not None:
            self.v("C20:migrate:raised", f"apply_migrations on {key} raised {type(exc).__name__}: "
                   f"{str(exc)[:200]} / {str(exc.__cause__)[:200]}", f"C20:migrate:raised:{type(exc).__name__}")
            return
        try:
            proj = signac.Project(pp)
            got = {j.id: (norm(j.statepoint()), norm(j.document())) for j in proj}
            pdoc = norm(proj.document())
        except Exception as e:  # noqa: BLE001
            self.v("C20:migrate:does-not-open", f"after migration of {key}: {type(e).__name__}: {e}")
            return
        if set(got) != set(jobs):
            self.v("C20:migrate:job-set", f"after migration of {key}: ids {sorted(got)} vs {sorted(jobs)}")
            return
        for jid, j in jobs.items():
            if not same(got[jid][0], j["sp"]) or not same(got[jid][1], j["doc"]):
                self.v("C20:migrate:job-content", f"job {jid[:8]}: {got[jid]} vs {j}")
        trees1 = self.job_trees(os.path.join(pp, "workspace"))
        if trees1 != trees0:
            self.v("C20:migrate:files-differ", f"job directories differ after migration: "
                   f"{sorted(set(trees0) ^ set(trees1))[:4]}")
        want_doc = {"existing": [1, 2], "k": "v"} if cfg["pdoc"] else {}
        if cfg["name"] != "None":
            want_doc["signac_project_name"] = cfg["name"]
        if not same(pdoc, want_doc):
            self.v("C20:migrate:project-document",
                   f"project document after migration is {pdoc}, expected {want_doc}",
                   "C20:migrate:project-document:" + ("name" if not same(pdoc.get("signac_project_name"),
                                                                        want_doc.get("signac_project_name"))
                                                      else "content"))
        lf = cfg["legacy_files"]
        with self.world.observing():
            hist_now = os.path.isfile(os.path.join(pp, ".signac", "shell_history"))
            cache_now = os.path.lexists(os.path.join(pp, CACHE_REL))
            try:
                with O.io_open(os.path.join(pp, CACHE_REL), "rb") as f:
                    cache = json.loads(gzip.decompress(f.read()).decode())
            except Exception:
                cache = None
        # each legacy file is moved to its own new place; a file that did not exist does not appear
        want_hist, want_cache = lf in ("both", "history"), lf in ("both", "cache")
        if hist_now != want_hist or cache_now != want_cache or (want_cache and (
                cache is None or any(not same(cache.get(jid), j["sp"]) for jid, j in jobs.items()))):
            self.v("C20:migrate:legacy-files",
                   f"legacy files '{lf}': shell history present after migration: {hist_now}; cache file present: "
                   f"{cache_now}, content {cache}", f"C20:migrate:legacy-files:{lf}")
        # leftovers of the old layout
        with self.world.observing():
            left = [n for n in ("signac.rc", ".signac_sp_cache.json.gz", ".signac_shell_history",
                                ".SIGNAC_PROJECT_MIGRATION_LOCK") if os.path.lexists(os.path.join(pp, n))]
        if left:
            self.v("C20:migrate:leftovers", f"after migration the old layout files remain: {left}")
        # migrating again is a no-op
        snap2 = snapshot(pp, mtimes=True)
        try:
            apply_migrations(pp)
            exc2 = None
        except Exception as e:  # noqa: BLE001
            exc2 = e
        if exc2 is not None or self.strip(snapshot(pp, mtimes=True)) != self.strip(snap2):
            self.v("C20:migrate:second-migration-not-noop", f"{type(exc2).__name__ if exc2 else 'changed'}")

    def strip(self, snap):
        return {r: e[:2] for r, e in snap.items() if not r.endswith(".SIGNAC_PROJECT_MIGRATION_LOCK")}

    def sdiff(self, a, b):
        a, b = self.strip(a), self.strip(b)
        return [("+" if r not in a else "-" if r not in b else "~") + r for r in sorted(set(a) | set(b))
                if a.get(r) != b.get(r)][:6]

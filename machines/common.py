"""Helpers shared by the engines: value pools, project observation, payloads."""

import gzip
import json
import os
import re

from model.canon import canon, cid, norm, same
from simcore.world import O, SimWorld, snapshot

SP_FILE = "signac_statepoint.json"
DOC_FILE = "signac_job_document.json"
PDOC_FILE = "signac_project_document.json"
CACHE_REL = ".signac/statepoint_cache.json.gz"
HEX32 = re.compile(r"^[0-9a-f]{32}$")


def quiet(fn):
    """Run fn as harness-side observation: no steps, no faults, no scheduling."""

    def g(*a, **k):
        w = SimWorld.current
        if w is None:
            return fn(*a, **k)
        w.quiet += 1
        try:
            return fn(*a, **k)
        finally:
            w.quiet -= 1

    g.__name__ = fn.__name__
    return g


# ----------------------------------------------------------------------------
# values
# ----------------------------------------------------------------------------
SCALARS = [0, 1, 2, -1, 10, 2**53 - 1, -(2**53 - 1), 1.0, 0.5, -0.0, 2.5e-8, 1e22,
           True, False, None, "", "a", "1", "True", "x y", "é", "日本", "a.b", "\n"]


def gen_value(rng, depth=2):
    r = rng.random()
    if depth <= 0 or r < 0.62:
        return rng.choice(SCALARS)
    if r < 0.8:
        return [gen_value(rng, depth - 1) for _ in range(rng.randrange(0, 4))]
    return {rng.choice("abcxyz") + rng.choice(["", "1", "_k"]): gen_value(rng, depth - 1)
            for _ in range(rng.randrange(0, 3))}


def gen_sp(rng, keys="abcd", depth=2, min_keys=1):
    n = rng.randrange(min_keys, len(keys) + 1)
    ks = rng.sample(list(keys), n)
    return {k: gen_value(rng, depth) for k in ks}


def gen_doc(rng, size="small"):
    if size == "empty":
        return {}
    if size == "large":
        # several raw writes: > 3 * 8 KiB of JSON
        return {"blob": [rng.randrange(10**6) for _ in range(4200)],
                "tag": "L%d" % rng.randrange(10**9)}
    return {rng.choice("pqrs") + str(rng.randrange(3)): gen_value(rng, 2)
            for _ in range(rng.randrange(1, 4))}


# ----------------------------------------------------------------------------
# raw observation of a project directory (independent of signac)
# ----------------------------------------------------------------------------
@quiet
def read_json(path):
    """(status, value): status in ok | absent | bad"""
    try:
        with O.io_open(path, "rb") as f:
            data = f.read()
    except FileNotFoundError:
        return "absent", None
    except NotADirectoryError:
        return "absent", None
    try:
        return "ok", json.loads(data.decode("utf-8"))
    except (ValueError, UnicodeDecodeError):
        return "bad", data


@quiet
def read_cache(project_path):
    p = os.path.join(project_path, CACHE_REL)
    try:
        with O.io_open(p, "rb") as f:
            data = f.read()
    except FileNotFoundError:
        return "absent", None
    try:
        return "ok", json.loads(gzip.decompress(data).decode("utf-8"))
    except Exception:
        return "bad", data


@quiet
def raw_ws_entries(project_path):
    ws = os.path.join(project_path, "workspace")
    try:
        return sorted(O.listdir(ws))
    except FileNotFoundError:
        return []


@quiet
def raw_job(project_path, jid):
    """Raw view of one job directory: sp (status, value), doc (status, value), files."""
    d = os.path.join(project_path, "workspace", jid)
    snap = snapshot(d)
    files = {r: e for r, e in snap.items()
             if r not in (SP_FILE, DOC_FILE)}
    return {
        "sp": read_json(os.path.join(d, SP_FILE)),
        "doc": read_json(os.path.join(d, DOC_FILE)),
        "files": files,
    }


@quiet
def raw_project(project_path):
    """{id: raw_job} for every exactly-32-hex *directory* of the workspace."""
    out = {}
    ws = os.path.join(project_path, "workspace")
    for name in raw_ws_entries(project_path):
        if HEX32.match(name) and os.path.isdir(os.path.join(ws, name)) \
                and not os.path.islink(os.path.join(ws, name)):
            out[name] = raw_job(project_path, name)
    return out


def job_valid(rawjob, jid):
    st, v = rawjob["sp"]
    if st != "ok" or not isinstance(v, dict):
        return False
    try:
        return cid(v) == jid
    except (TypeError, ValueError):
        return False


# ----------------------------------------------------------------------------
# observation through fresh signac handles (no steps, no faults)
# ----------------------------------------------------------------------------
@quiet
def fresh_view(project_path):
    """What a fresh session sees: {id: (sp, doc)}; raises what signac raises."""
    import signac

    p = signac.Project(project_path)
    out = {}
    for job in p:
        out[job.id] = (norm(job.statepoint()), norm(job.document()))
    return out


class _null:
    def __enter__(self):
        return self

    def __exit__(self, *a):
        return False


@quiet
def check_project(project_path):
    """(ok, corrupted ids or error text) of Project.check() in a fresh session."""
    import signac
    from signac.errors import JobsCorruptedError

    try:
        signac.Project(project_path).check()
        return True, []
    except JobsCorruptedError as e:
        return False, list(e.job_ids)


@quiet
def leftovers(project_path):
    """Temporary / backup files anywhere below the project (raw walk)."""
    out = []
    for r, e in snapshot(project_path).items():
        base = r.rsplit("/", 1)[-1]
        if base.endswith("~") or base.startswith("._"):
            out.append(r)
    return out


@quiet
def write_payload(jobdir, files):
    """Create data files {relative name: text} below a job directory (harness side).  Everything
    created gets its mtime from the simulated clock, so archives built from it are reproducible."""
    w = SimWorld.current
    t = w.stamp() if w is not None else None
    touched = set()
    for rel, text in files.items():
        full = os.path.join(jobdir, rel)
        d = os.path.dirname(full)
        if not os.path.isdir(d):
            os.makedirs(d)
        with O.io_open(full, "wb") as f:
            f.write(text.encode() if isinstance(text, str) else text)
        touched.add(full)
        while len(d) >= len(jobdir):
            touched.add(d)
            d = os.path.dirname(d)
    if t is not None:
        for p in touched:
            O.utime(p, ns=(t, t))


def viol(prop, vclass, message, fingerprint=None, narrow=None):
    v = {"property": prop, "class": vclass, "message": message,
         "fingerprint": fingerprint or vclass}
    if narrow:
        v["narrow"] = narrow
    return v


__all__ = [n for n in dir() if not n.startswith("_")] + ["canon", "cid", "norm", "same"]

"""Engine `view` (C17): a linked view is an exact, self-healing picture of the selected jobs.

Histories (<= 25 steps) of {create view (prefix, optional job_ids subset, optional
path spec), add / remove / re-key jobs, create again, restart} over homogeneous,
heterogeneous and nested state point universes with values containing spaces,
dots, unicode, the word 'job', and the path separator.

After every successful create: the walk of the view is exactly one symlink per
selected job, resolving to that job's directory, at a path spelling that job's
non-constant keys and values (automatic paths), and nothing else but the
directories leading to links; it equals a from-scratch build of the same
selection in a fresh prefix; an immediate second call leaves the view's snapshot
identical.  A create that raises must leave the existing view's snapshot
identical.  Fault dimension: the history itself (stale views), restarts,
directory-listing order.
"""

import os

from machines.common import cid, norm, quiet, same, viol
from machines.lifecycle import Mismatch
from simcore.driver import EngineBase, generic_shrink
from simcore.sched import install_locks, install_pools
from simcore.world import O, SimWorld, snapshot, wipe

UNIVERSES = {
    "homog": {"a": [0, 1, 2, 10], "b": ["x", "y"]},
    "hetero": {"a": [0, 1], "b": ["x", "y"], "c": [True, False]},
    "nested": {"a": [0, 1], "n": [{"x": 1}, {"x": 2}, {"x": 1, "y": "q"}]},
    "weird": {"s": ["x y", "v1.0", "é", "job", "a.b"], "a": [0, 1]},
    "typed": {"a": [1, 1.0, "1", True]},
    "sep": {"s": ["p/q", "ok"], "a": [0, 1]},
    "jobkey": {"job": [1, 2, "job"], "a": [0, 1]},
    "dots": {"s": [".h5", ".hidden", "..", "x", "..x", "."], "a": [0, 1]},
    "nestedsep": {"n": [{"x": "p/q"}, {"x": "ok"}, {"x": ".."}, {"x": 1}], "l": [["p/q"], [1], ["."]], "a": [0, 1]},
}
PATHS = [None, None, None, False, "x/{{auto}}", "{{auto:_}}", "id/{job.id}"]


def flat(sp, pre=""):
    out = {}
    for k, v in sp.items():
        if isinstance(v, dict):
            out.update(flat(v, pre + k + "."))
        else:
            out[pre + k] = v
    return out


def spell(v):
    """How a value appears in an automatic path (lists are spelled as tuples)."""
    def tup(x):
        return tuple(tup(y) for y in x) if isinstance(x, list) else x
    return str(tup(v))


class Engine(EngineBase):
    def budget(self, tier):
        return (2700, 55.0) if tier == "quick" else (60000, 900.0)

    def rule(self):
        return ("seeded histories (<= 25 steps) of add / remove / re-key job, create view (2 prefixes, all jobs or "
                "a seeded subset, path spec None / False / {{auto}} variants / id), restart; universes homogeneous, "
                "heterogeneous, nested, weird strings, mixed types, path separators. distinct = operation 3-grams "
                "and (universe, path spec, outcome, number of links, obsolete links removed) tuples; non-trivial = a "
                "view was updated after the workspace changed")

    def generate(self, rng, tier):
        knobs = {"listing": rng.choice(["shuffle", "shuffle", "sorted", "reverse"]), "chunk": "none", "clock": "inc"}
        uni = rng.choice(sorted(UNIVERSES))
        U = UNIVERSES[uni]
        hetero = uni == "hetero" or rng.random() < 0.15
        ops = []
        n = rng.randrange(4, 25)

        def gen_sp():
            sp = {}
            for k, vals in U.items():
                if hetero and rng.random() < 0.35:
                    continue
                sp[k] = rng.choice(vals)
            return sp or {"a": rng.randrange(3)}

        for _ in range(rng.randrange(0, 5)):
            ops.append(["add", gen_sp()])
        for _ in range(n):
            k = rng.choice(["add", "add", "add", "remove", "rekey", "view", "view", "view", "view", "restart"])
            if k == "add":
                ops.append([k, gen_sp()])
            elif k == "remove":
                ops.append([k, rng.randrange(100)])
            elif k == "rekey":
                key = rng.choice(sorted(U))
                ops.append([k, rng.randrange(100), key, rng.choice(U[key])])
            elif k == "view":
                ops.append([k, rng.randrange(2), rng.choice(["all", "all", "subset"]), rng.randrange(10**6),
                            rng.choice(PATHS)])
            else:
                ops.append([k])
        ops.append(["view", 0, "all", 0, rng.choice(PATHS)])
        return {"knobs": knobs, "universe": uni, "ops": ops}

    def sample(self, scenario, result):
        return {"universe": scenario["universe"], "ops": scenario["ops"][:20], "executed": result.get("executed")}

    def execute(self, sc, ctx):
        import signac

        install_locks()
        install_pools(2)
        res = {"violations": [], "keys": [], "stats": {"faults": {}, "probes": {}}, "nontrivial": False}
        root = os.path.join(ctx.scratch, "w")
        with SimWorld(root, seed=sc.get("seed", 0), knobs=sc["knobs"]) as world:
            run = Run(sc, world, signac)
            try:
                run.go()
            except Mismatch as m:
                res["violations"].append(viol(m.prop, m.vclass, m.msg, m.fp))
            res["executed"] = run.executed
            res["keys"] = run.keys
            res["nontrivial"] = run.probes.get("view_updated_after_change", 0) > 0
            res["stats"]["probes"] = run.probes
            res["stats"]["faults"] = {"restart": run.probes.get("restart", 0),
                                      "stale_view_updates": run.probes.get("view_updated_after_change", 0)}
            res["digest"] = world.digest()
            res["stats"]["steps"] = world.seq
            res["stats"]["sim_ms"] = world.clock_ms - 1_000_000_000_000
        return res


class Run:
    def __init__(self, sc, world, signac):
        self.sc, self.world, self.signac = sc, world, signac
        self.pp = world.p("proj")
        self.proj = signac.init_project(self.pp)
        self.model = {}
        self.probes = {}
        self.keys = []
        self.executed = 0
        self.grams = []
        self.dirty = [False, False]  # workspace changed since the prefix was last built
        self.scratch_n = 0

    def probe(self, k, n=1):
        self.probes[k] = self.probes.get(k, 0) + n

    def go(self):
        for i, op in enumerate(self.sc["ops"]):
            getattr(self, "op_" + op[0])(op)
            self.executed = i + 1
            self.grams.append(op[0])
            if len(self.grams) >= 3:
                self.keys.append("g:" + ">".join(self.grams[-3:]))

    def pick(self, n):
        ids = sorted(self.model)
        return ids[n % len(ids)] if ids else None

    def op_add(self, op):
        self.proj.open_job(op[1]).init()
        self.model[cid(op[1])] = norm(op[1])
        self.dirty = [True, True]

    def op_remove(self, op):
        jid = self.pick(op[1])
        if jid is None:
            return
        self.proj.open_job(id=jid).remove()
        del self.model[jid]
        self.dirty = [True, True]

    def op_rekey(self, op):
        jid = self.pick(op[1])
        if jid is None:
            return
        new = {**self.model[jid], op[2]: op[3]}
        if cid(new) in self.model or cid(new) == jid:
            return
        self.proj.open_job(id=jid).sp[op[2]] = op[3]
        del self.model[jid]
        self.model[cid(new)] = norm(new)
        self.dirty = [True, True]

    def op_restart(self, op):
        self.proj = self.signac.Project(self.pp)
        self.probe("restart")

    # ------------------------------------------------------------------
    @quiet
    def walk(self, prefix):
        """({relative link path: resolved absolute target}, [directories], [other entries])"""
        links, dirs, other = {}, [], []
        if not os.path.lexists(prefix):
            return links, dirs, other
        for r, e in snapshot(prefix).items():
            if e[0] == "l":
                links[r] = os.path.realpath(os.path.join(prefix, r))
            elif e[0] == "d":
                dirs.append(r)
            else:
                other.append(r)
        return links, dirs, other

    def op_view(self, op):
        P = "C17"
        _, pidx, subset, sseed, path = op
        prefix = self.world.p(f"view{pidx}")
        ids = sorted(self.model)
        if subset == "subset" and ids:
            import random
            r = random.Random(sseed)
            sel = sorted(r.sample(ids, r.randrange(0, len(ids) + 1)))
            job_ids = sel
            ids_kind = ("list", "generator", "tuple", "iterator")[sseed % 4]
        else:
            sel = ids
            job_ids = None
            ids_kind = "list"
        def ids_arg():
            """job_ids is documented as an iterable: a list, a tuple, or something that can be walked once"""
            if job_ids is None:
                return None
            return {"list": lambda: list(job_ids), "tuple": lambda: tuple(job_ids),
                    "generator": lambda: (x for x in job_ids), "iterator": lambda: iter(list(job_ids))}[ids_kind]()

        before = snapshot(prefix) if os.path.lexists(prefix) else None
        exc = None
        try:
            self.proj.create_linked_view(prefix=prefix, job_ids=ids_arg(), path=path)
        except Exception as e:  # noqa: BLE001
            exc = e
        # keys and formatted values become path components: a component holding the separator, or equal
        # to '.' or '..', cannot be represented
        comps = [c for j in sel for k, v in flat(self.model[j]).items() for c in (*k.split("."), str(v))]
        has_sep = any(os.sep in c for c in comps)
        has_dots = any(c in (os.curdir, os.pardir) for c in comps)
        # a key named like the links themselves: link and directory would compete for one path
        has_leaf_key = any("job" in self.model[j] for j in sel)
        pk = "None" if path is None else "False" if path is False else path
        if exc is not None:
            after = snapshot(prefix) if os.path.lexists(prefix) else None
            self.keys.append(f"v:{self.sc['universe']}|{pk}|{type(exc).__name__}")
            if after != before:
                raise Mismatch(P, "C17:failed-create-changed-view",
                               f"create_linked_view raised {type(exc).__name__}: {str(exc)[:120]} but changed the "
                               f"existing view: {self.sdiff(before or {}, after or {})}",
                               f"C17:failed-create-changed-view:{type(exc).__name__}")
            if not isinstance(exc, RuntimeError):
                raise Mismatch(P, "C17:create-raised",
                               f"create_linked_view({pk}, {len(sel)} jobs) raised {type(exc).__name__}: "
                               f"{str(exc)[:160]}", f"C17:create-raised:{type(exc).__name__}")
            self.probe("create_refused")
            return
        if has_sep:
            raise Mismatch(P, "C17:separator-accepted", f"a state point of the selection contains '{os.sep}' but "
                           f"create_linked_view succeeded")
        if has_leaf_key:
            raise Mismatch(P, "C17:leaf-named-key-accepted", "a state point of the selection has a key named "
                           "'job' (the name of the links) but create_linked_view succeeded")
        if has_dots:
            raise Mismatch(P, "C17:dot-component-accepted", "a state point value of the selection is '.' or '..' "
                           "(not representable as a path component) but create_linked_view succeeded")
        if self.dirty[pidx] and before is not None:
            self.probe("view_updated_after_change")
        self.dirty[pidx] = False
        self.check_view(prefix, sel, path, f"view{pidx} path={pk} jobs={len(sel)}")
        # from scratch in a fresh prefix
        self.scratch_n += 1
        sprefix = self.world.p(f"scratch{self.scratch_n}")
        try:
            self.signac.Project(self.pp).create_linked_view(prefix=sprefix, job_ids=ids_arg(), path=path)
        except Exception as e:  # noqa: BLE001
            raise Mismatch(P, "C17:from-scratch-build-raised", f"the incremental build succeeded but the "
                           f"from-scratch build raised {type(e).__name__}: {e}")
        a, da, _ = self.walk(prefix)
        b, db, _ = self.walk(sprefix)
        if a != b or sorted(da) != sorted(db):
            raise Mismatch(P, "C17:incremental-differs-from-scratch",
                           f"incremental view {sorted(a)[:6]} dirs {sorted(da)[:6]} vs from scratch "
                           f"{sorted(b)[:6]} dirs {sorted(db)[:6]}")
        with self.world.observing():
            wipe(sprefix)
        # an immediate second call is a no-op
        snap1 = snapshot(prefix) if os.path.lexists(prefix) else None
        log0 = len(self.world.log)
        try:
            self.proj.create_linked_view(prefix=prefix, job_ids=ids_arg(), path=path)
        except Exception as e:  # noqa: BLE001
            raise Mismatch(P, "C17:second-call-raised", f"second create_linked_view raised {type(e).__name__}: {e}")
        snap2 = snapshot(prefix) if os.path.lexists(prefix) else None
        if snap1 != snap2:
            raise Mismatch(P, "C17:second-call-not-noop", f"second call changed {self.sdiff(snap1 or {}, snap2 or {})}")
        churn = [e for e in self.world.log[log0:] if e[2] in ("symlink", "unlink", "rmdir")
                 and str(e[3]).startswith(f"view{pidx}")]
        if churn:
            self.probe("link_churn", len(churn))
        links, dirs, other = self.walk(prefix)
        self.keys.append(f"v:{self.sc['universe']}|{pk}|ok|{len(links)}")

    def sdiff(self, a, b):
        return [("+" if r not in a else "-" if r not in b else "~") + r for r in sorted(set(a) | set(b))
                if a.get(r) != b.get(r)][:6]

    def check_view(self, prefix, sel, path, ctx):
        P = "C17"
        links, dirs, other = self.walk(prefix)
        if other:
            raise Mismatch(P, "C17:foreign-entries", f"{ctx}: the view holds non-link entries {other[:4]}")
        want = {os.path.realpath(os.path.join(self.pp, "workspace", j)): j for j in sel}
        by_target = {}
        for r, t in links.items():
            by_target.setdefault(t, []).append(r)
        for t, rs in by_target.items():
            if t not in want:
                kind = "dangling" if not os.path.exists(t) else "unselected"
                raise Mismatch(P, f"C17:{kind}-link", f"{ctx}: link {rs[0]} -> {t} ({kind})",
                               f"C17:{kind}-link")
            if len(rs) > 1:
                raise Mismatch(P, "C17:duplicate-links", f"{ctx}: job {want[t][:8]} has links {rs}")
        missing = [j for t, j in want.items() if t not in by_target]
        if missing:
            raise Mismatch(P, "C17:missing-link", f"{ctx}: no link for {[self.model[j] for j in missing][:3]}")
        for r in links:
            if r.rsplit("/", 1)[-1] != "job":
                raise Mismatch(P, "C17:link-name", f"{ctx}: link {r} is not named 'job'")
        # nothing but directories leading to links
        needed = set()
        for r in links:
            parts = r.split("/")[:-1]
            for i in range(1, len(parts) + 1):
                needed.add("/".join(parts[:i]))
        extra = sorted(set(dirs) - needed)
        if extra:
            raise Mismatch(P, "C17:empty-directories", f"{ctx}: directories without links below them: {extra[:5]}")
        # automatic paths spell the job's non-constant keys and values
        if path is None and len(sel) > 1:
            flats = {j: flat(self.model[j]) for j in sel}
            allkeys = set().union(*[set(f) for f in flats.values()])
            const = set()
            for k in allkeys:
                vals = [f.get(k, "<absent>") for f in flats.values()]
                if all(k in f for f in flats.values()) and all(same(v, vals[0]) for v in vals):
                    const.add(k)
            for t, rs in by_target.items():
                j = want[t]
                toks = rs[0].split("/")[:-1]
                f = flats[j]
                if len(toks) % 2:
                    raise Mismatch(P, "C17:path-spelling", f"{ctx}: {rs[0]} is not key/value pairs")
                seen = {}
                for i in range(0, len(toks), 2):
                    seen[toks[i]] = toks[i + 1]
                expect = {k: spell(v) for k, v in f.items() if k not in const}
                if seen != expect:
                    raise Mismatch(P, "C17:path-spelling",
                                   f"{ctx}: job {self.model[j]} is linked at {rs[0]}; its distinguishing keys "
                                   f"are {expect}")

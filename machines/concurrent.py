"""Engine `concurrent` (C12): concurrent processes initialise jobs and write documents.

2 (mostly) or 3 process-actors run scripts drawn from the property's alphabet
{Project(); open_job(sp).init(); job.doc[k] = v on the actor's own job; read a
job's document; len(project)} against one project directory (empty, without
workspace directory, or populated).  Every file-system call is a scheduling
point; a seeded random-walk or PCT scheduler decides who runs.

Oracles: no actor raises; every document read returns a state the single writer
of that document actually produced, inside the interval allowed by the
completed / started writes (so a completed write is seen by every later read);
at the end check() passes, the workspace holds exactly the requested jobs and
every document equals its writer's sequential result.
"""

import os

from machines.common import DOC_FILE, check_project, cid, norm, quiet, raw_project, same, viol
from simcore.driver import EngineBase, generic_shrink
from simcore.sched import Scheduler, SimRLock, install_locks, install_pools
from simcore.world import O, SimWorld, restore, snapshot, wipe


class Engine(EngineBase):
    def budget(self, tier):
        return (1700, 55.0) if tier == "quick" else (45000, 900.0)

    def rule(self):
        return ("seeded actor scripts (2-3 process-actors x 3-6 statements over 1-3 state points, same or "
                "different jobs, document writes spelled as item assignment / update() / whole assignment through a "
                "used or an untouched handle, start state empty / no workspace directory / populated) x seeded schedules "
                "(random walk, PCT depth 1-3) at file-system-call granularity; evaluations = schedules run. "
                "distinct = happens-before fingerprints (per path: sequence of (actor, call kind)); "
                "non-trivial = at least 2 pre-emptions between actors")

    def stubs(self):
        return super().stubs() + ["processes = baton-passing thread actors, one runs at a time",
                                  "RLock -> SimRLock with per-process ownership; synced_collections per-file lock table -> table that re-creates entries another simulated process moved"]

    def generate(self, rng, tier):
        knobs = {"listing": rng.choice(["shuffle", "sorted"]), "chunk": rng.choice(["none", "split2", "small"]),
                 "clock": rng.choice(["inc", "coarse", "stall"])}
        nact = 2 if rng.random() < 0.75 else 3
        nsp = rng.randrange(1, 4)
        sps = [{"j": i} for i in range(nsp)]
        start = rng.choice(["empty", "empty", "noworkspace", "populated"])
        scripts = []
        tag = 0
        for a in range(nact):
            own = rng.randrange(nsp) if rng.random() < 0.5 else a % nsp
            st = [["project"]]
            for _ in range(rng.randrange(2, 6)):
                k = rng.choice(["init", "init", "write", "write", "read", "read", "len", "project"])
                if k == "init":
                    st.append([k, rng.randrange(nsp)])
                elif k == "write":
                    tag += 1
                    st.append([k, rng.choice("pq"), f"a{a}w{tag}"])
                    # how the write is spelled: item assignment, update(), or assignment of the whole document
                    # (through the cached handle or through one that never looked at its document)
                    how = rng.choice(["item", "item", "item", "update", "assign", "assign_fresh"])
                    if how != "item":
                        st[-1].append(how)
                elif k == "read":
                    st.append([k, rng.randrange(nsp)])
                else:
                    st.append([k])
            scripts.append({"own": own, "stmts": st})
        # one writer per document: actors sharing `own` keep only the first one's writes
        seen = set()
        for s in scripts:
            if s["own"] in seen:
                s["stmts"] = [x for x in s["stmts"] if x[0] != "write"]
            elif any(x[0] == "write" for x in s["stmts"]):
                seen.add(s["own"])
        return {"knobs": knobs, "sps": sps, "start": start, "scripts": scripts,
                "schedules": rng.randrange(6, 14), "policy": rng.choice(["random", "random", "pct"]),
                "pct_depth": rng.randrange(1, 4)}

    def shrink(self, scenario):
        scripts = scenario["scripts"]
        for a in range(len(scripts)):
            st = scripts[a]["stmts"]
            for i in range(len(st) - 1, 0, -1):
                c = dict(scenario)
                c["scripts"] = [dict(s) for s in scripts]
                c["scripts"][a]["stmts"] = st[:i] + st[i + 1:]
                yield c
        if len(scripts) > 2:
            for a in range(len(scripts)):
                c = dict(scenario)
                c["scripts"] = scripts[:a] + scripts[a + 1:]
                yield c

    def sample(self, scenario, result):
        return {"scripts": scenario["scripts"], "start": scenario["start"], "sps": scenario["sps"],
                "schedule_sample": result.get("schedule_sample")}

    # ------------------------------------------------------------------
    def execute(self, sc, ctx):
        import signac

        install_locks(shared_interpreter=True)
        install_pools(2)
        res = {"violations": [], "keys": [], "ikeys": [], "stats": {"faults": {}, "probes": {}, "variants": 0},
               "nontrivial": False}
        root = os.path.join(ctx.scratch, "w")
        with SimWorld(root, seed=sc.get("seed", 0), knobs=sc["knobs"]) as world:
            self._run(sc, world, res, signac)
            res["digest"] = world.digest()
            res["stats"]["steps"] = world.seq
            res["stats"]["sim_ms"] = world.clock_ms - 1_000_000_000_000
        return res

    def _setup(self, sc, world, signac):
        pp = world.p("proj")
        project = signac.init_project(pp)
        init_docs = {}
        if sc["start"] == "populated":
            for i, sp in enumerate(sc["sps"]):
                if i % 2 == 0:
                    job = project.open_job(sp).init()
                    job.doc["seed"] = i
                    init_docs[i] = {"seed": i}
            project.open_job({"other": 1}).init()
        elif sc["start"] == "noworkspace":
            with world.observing():
                wipe(os.path.join(pp, "workspace"))
        return pp, init_docs

    def _run(self, sc, world, res, signac):
        P = self.prop
        pp, init_docs = self._setup(sc, world, signac)
        pre = snapshot(world.root, mtimes=True)
        plans = []
        if sc.get("only_schedule") is not None:
            plans = [("fixed", sc["only_schedule"], 1)]
        else:
            for i in range(sc["schedules"]):
                plans.append((sc["policy"], None, sc.get("pct_depth", 2)))
        fps = set()
        for pi, (policy, fixed, depth) in enumerate(plans):
            restore(world.root, pre)
            s = Scheduler(world, f"{sc.get('seed', 0)}:{pi}", policy=policy, schedule=fixed, pct_depth=depth)
            SimRLock.sched = s
            hist = History()
            actors = []
            for a, script in enumerate(sc["scripts"]):
                actors.append(s.spawn(f"P{a}", self._actor_fn(sc, pp, a, script, hist, signac), pid=f"P{a}"))
            try:
                s.run()
            finally:
                SimRLock.sched = None
            res["stats"]["variants"] += 1
            fp = s.fingerprint()
            fps.add(fp)
            if s.preemptions() >= 2:
                res["nontrivial"] = True
                res["keys"].append(fp)
            bad = None
            for a in actors:
                if a.error is not None:
                    bad = (f"actor-raised:{type(a.error).__name__}",
                           f"process {a.name} raised {type(a.error).__name__}: {str(a.error)[:200]} while "
                           f"executing {hist.current.get(a.name)}")
                    break
            if bad is None and s.deadlock:
                bad = ("deadlock", "processes blocked forever")
            if bad is None:
                bad = hist.check(sc, init_docs)
            if bad is None:
                bad = self._final(sc, pp, hist, init_docs)
            if bad:
                res["violations"].append(viol(P, "C12:" + bad[0],
                                              f"{bad[1]} | schedule={''.join(x[1] for x in s.taken)[:300]}",
                                              "C12:" + bad[0].split(":")[0], {"only_schedule": list(s.taken)}))
                res["ikeys"] = sorted(fps)
                return
            if pi == 0:
                res["schedule_sample"] = "".join(x[1] for x in s.taken)[:200]
        res["ikeys"] = sorted(fps)
        res["stats"]["faults"] = {"preemptions": 0}

    def _actor_fn(self, sc, pp, a, script, hist, signac):
        name = f"P{a}"
        own_sp = sc["sps"][script["own"]]

        def run():
            project = None
            jobs = {}
            for st in script["stmts"]:
                k = st[0]
                hist.current[name] = st
                if k == "project":
                    project = signac.Project(pp)
                    jobs = {}
                elif k == "init":
                    project.open_job(sc["sps"][st[1]]).init()
                    hist.inited.add(st[1])
                elif k == "write":
                    i = script["own"]
                    job = jobs.get(i) or jobs.setdefault(i, project.open_job(own_sp))
                    how = st[3] if len(st) > 3 else "item"
                    t0 = hist.tick()
                    if how == "item":
                        job.doc[st[1]] = st[2]
                    elif how == "update":
                        job.doc.update({st[1]: st[2], "u": st[2]})
                    elif how == "assign":
                        job.doc = {st[1]: st[2]}
                    else:
                        project.open_job(own_sp).doc = {st[1]: st[2]}
                    hist.writes.setdefault(i, []).append((t0, hist.tick(), st[1], st[2], how))
                    hist.inited.add(i)
                elif k == "read":
                    i = st[1]
                    job = jobs.get(i) or jobs.setdefault(i, project.open_job(sc["sps"][i]))
                    t0 = hist.tick()
                    v = job.doc()
                    hist.reads.append((t0, hist.tick(), i, norm(v), name))
                    hist.inited.add(i)
                elif k == "len":
                    t0 = hist.tick()
                    n = len(project)
                    hist.lens.append((t0, hist.tick(), n, name))
            hist.current[name] = None

        return run

    @quiet
    def _final(self, sc, pp, hist, init_docs):
        try:
            ok, bad = check_project(pp)
        except Exception as e:  # noqa: BLE001
            return ("final:check-raised", f"check() raised {type(e).__name__}: {e}")
        if not ok:
            return ("final:check-reports-corruption", f"check() reports {bad}")
        raw = raw_project(pp)
        want = {cid(sc["sps"][i]) for i in hist.inited}
        if sc["start"] == "populated":
            want |= {cid(sp) for i, sp in enumerate(sc["sps"]) if i % 2 == 0} | {cid({"other": 1})}
        if set(raw) != want:
            return ("final:job-set", f"workspace holds {sorted(x[:6] for x in raw)}, requested "
                                     f"{sorted(x[:6] for x in want)}")
        for i, sp in enumerate(sc["sps"]):
            jid = cid(sp)
            if jid not in raw:
                continue
            st, spv = raw[jid]["sp"]
            if st != "ok" or not same(spv, sp):
                return ("final:statepoint", f"job {i}: state point file {st} {spv}")
            doc = dict(init_docs.get(i, {}))
            for w in hist.writes.get(i, []):
                doc = apply_write(doc, w)
            dst, dv = raw[jid]["doc"]
            if not ((dst == "absent" and doc == {}) or (dst == "ok" and same(dv, doc))):
                return ("final:document", f"job {i}: document {dst} {dv}, its writer's sequential result is {doc}")
        leftovers = [r for r in snapshot(pp) if r.rsplit("/", 1)[-1].startswith("._")
                     or r.rsplit("/", 1)[-1].endswith("~")]
        if leftovers:
            return ("final:leftover-temporary-files", f"{leftovers[:4]}")
        return None


def apply_write(doc, w):
    """The document after write w = (t0, t1, key, value, how) in the writer's sequential order."""
    _, _, k, v, how = w
    if how in ("assign", "assign_fresh"):
        return {k: v}
    d = dict(doc)
    d[k] = v
    if how == "update":
        d["u"] = v
    return d


class History:
    """Invoke/return events stamped with a logical clock (only one actor runs at a time)."""

    def __init__(self):
        self.clock = 0
        self.writes = {}
        self.reads = []
        self.lens = []
        self.inited = set()
        self.current = {}

    def tick(self):
        self.clock += 1
        return self.clock

    def check(self, sc, init_docs):
        for t0, t1, i, val, who in self.reads:
            states = [dict(init_docs.get(i, {}))]
            ws = self.writes.get(i, [])
            for w in ws:
                states.append(apply_write(states[-1], w))
            lo = 0
            hi = 0
            for j, (w0, w1, *_rest) in enumerate(ws, 1):
                if w1 < t0:
                    lo = j
                if w0 < t1:
                    hi = j
            legal = [states[j] for j in range(lo, hi + 1)]
            if not any(same(val, s) for s in legal):
                kind = "stale-read" if any(same(val, s) for s in states[:lo]) else "torn-or-foreign-read"
                return (f"read:{kind}", f"{who} read document {i} = {val}; writes completed before the read: "
                                        f"{lo}, started before it returned: {hi}; legal states {legal}")
        nmax = len(sc["sps"]) + 1
        for t0, t1, n, who in self.lens:
            if not (0 <= n <= nmax):
                return ("len:out-of-range", f"{who} saw len(project) = {n}")
        return None

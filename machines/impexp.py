"""Engine `impexp` (C16): export then import reproduces the project.

Projects of 0-12 jobs over state point universes built to collide as text
(1/10/100, 1/1.0/'1', True/'True', keys that prefix each other, nested and
heterogeneous key sets, strings with spaces and dots), with documents and nested
files; targets directory / .zip / .tar / .tar.gz / .tar.bz2 / .tar.xz; path
specifications None / False / format strings / callables (incl. non-unique and
leaf/node-conflicting ones); import schema None / matching schema string /
callable.

Oracle: either the call raises and no job was copied, or the re-imported project
equals the source (ids, state points, documents, file trees).  Always: the source
is unchanged; a containment monitor on the call log allows export to mutate only
beneath its target and import only beneath the job directories it imports (plus
the world's temporary directory); paths this engine knows to be non-unique or
leaf/node-conflicting must be rejected before the first mutating call; importing
onto an existing id raises DestinationExistsError and leaves that job unchanged.

Fault / nondeterminism dimension: directory-listing order (it decides archive
member order, the order of os.walk on import, the order in which the leaf/node
check and the copies run), seeded temporary names.
"""

import json
import os
import tarfile
import zipfile

from machines.common import DOC_FILE, SP_FILE, cid, norm, quiet, raw_project, same, viol, write_payload
from simcore.driver import EngineBase, generic_shrink
from simcore.sched import install_locks, install_pools
from simcore.faultenum import run_op
from simcore.world import MUTATING, FaultPlan, O, SimWorld, restore, snapshot

UNIVERSES = {
    "int_prefix": {"a": [1, 10, 100, 11]},
    "type_mix": {"a": [1, 1.0, "1", True, "True"]},
    "two_keys": {"a": [1, 2], "b": ["x", "y", "x y"]},
    "prefix_keys": {"a": [1, 2], "ab": [1, 2], "a_b": [3]},
    "floats": {"f": [0.5, 1.5, 2.0, -1.25], "a": [1, 2]},
    "bools": {"flag": [True, False], "a": [0, 1]},
    "dots": {"s": ["v1.0", "v1", "a.b", "v 2"], "a": [1]},
    "nested": {"n": [{"x": 1}, {"x": 2}, {"x": 1, "y": 2}], "a": [1, 2]},
    "schema_words": {"w": ["alpha", "beta_2", "A1"], "a": [1, 10], "flag": [True, False]},
    "pathy": {"s": ["x", "./x", ".", "x/y", "x//y", "x/", "y/../x"], "a": [1, 2]},
    "escaping": {"s": ["ok", "../up", "../../up2", ".."], "a": [1]},
    # a leaf (a/1), paths below it (a/1/b/2) and siblings that sort between the two as strings
    "leaf_siblings": {"a": [1, 1.0, "1 x", "1-x", "1.x"], "b": [2, 3]},
}


class Engine(EngineBase):
    def budget(self, tier):
        return (2500, 55.0) if tier == "quick" else (60000, 900.0)

    def run_timeout(self, tier):
        return 90.0

    def rule(self):
        return ("seeded projects (0-12 jobs, textually colliding state point universes, heterogeneous key sets, "
                "documents, nested files) x target kind {dir, zip, tar, tar.gz, tar.bz2, tar.xz} x path spec "
                "{None, False, format strings incl. {{auto}} variants, callables incl. non-unique and "
                "leaf/node-conflicting} x import schema {None, matching schema string, callable}, listing order "
                "permuted; in 30% of the scenarios the import is repeated with EIO on one open / read / directory listing "
                "of the exported data (seeded position in the fault-free trace); a tenth of the directory exports "
                "lie at <importing project>/workspace_export. distinct = (universe, target kind, path spec kind, schema kind, export outcome, import "
                "outcome); non-trivial = at least one job was exported or the export was refused for a reason")

    def generate(self, rng, tier):
        knobs = {"listing": rng.choice(["shuffle", "shuffle", "sorted", "reverse"]), "chunk": "none",
                 "clock": "inc"}
        uni = rng.choice(sorted(UNIVERSES))
        schema_focus = rng.random() < 0.2
        if schema_focus:
            uni = rng.choice(["int_prefix", "floats", "bools", "schema_words"])
        U = UNIVERSES[uni]
        n = rng.choice([0, 1, 1, 2, 2, 3, 4, 5, 8, 12])
        sps = []
        tries = 0
        hetero = (rng.random() < 0.25 or (uni == "leaf_siblings" and rng.random() < 0.7)) and not schema_focus
        while len(sps) < n and tries < 200:
            tries += 1
            sp = {}
            for k, vals in U.items():
                if hetero and rng.random() < 0.3:
                    continue
                sp[k] = rng.choice(vals)
            if not sp:
                continue
            if all(not same(sp, s) for s in sps):
                sps.append(sp)
        if uni == "leaf_siblings" and rng.random() < 0.6:
            # the constellation itself: a leaf, a path below it, and a sibling whose path sorts between them
            sib = {"a": rng.choice([1.0, "1 x", "1-x", "1.x"])}
            if rng.random() < 0.4:
                sib["b"] = rng.choice([2, 3])
            core = [{"a": 1}, {"a": 1, "b": rng.choice([2, 3])}, sib]
            sps = core + [x for x in sps if all(not same(x, c) for c in core)][:rng.randrange(0, 3)]
            rng.shuffle(sps)
        if rng.random() < 0.12 and not schema_focus:
            sps.append({})  # the empty state point is a valid state point (and makes the key sets heterogeneous)
        jobs = []
        for i, sp in enumerate(sps):
            files = {}
            for name in ("f1", "sub/g", "sub/deep/h", ".hidden", "sub/.lock", ".cache/step0"):
                if rng.random() < (0.5 if not name.rsplit("/", 1)[-1].startswith(".") and "/." not in "/" + name
                                   else 0.15):
                    files[name] = f"DATA:{i}:{name}"
            # a job may itself hold state point files deeper down (a nested project, an earlier export):
            # they are data of that job, not jobs of the importing project
            r = rng.random()
            if r < 0.15:
                files["nested/signac_statepoint.json"] = json.dumps({"inner": i})
            elif r < 0.3:
                files["inner/workspace/0123456789abcdef0123456789abcdef/signac_statepoint.json"] = \
                    json.dumps({"inner": i, "deep": True})
            jobs.append({"sp": sp, "doc": {"i": i, "u": uni} if rng.random() < 0.7 else {}, "files": files})
        keys = sorted(U)
        spec = rng.choice(["none", "none", "false", "fmt", "fmt", "fmt", "fn", "fn"])
        if uni in ("pathy", "escaping") and rng.random() < 0.6:
            # values with path components matter where they are spelled into the path by a format string
            spec = "fmt"
        path = None
        if spec == "false":
            path = False
        elif spec == "fmt":
            k0 = keys[0]
            path = rng.choice([
                "/".join(f"{k}/{{{k}}}" for k in keys),
                "_".join(f"{{{k}}}" for k in keys),
                f"{k0}/{{{k0}}}",
                "x/{{auto}}",
                "{{auto:_}}",
                "{job.id}",
                f"{k0}_{{{k0}}}/{{{{auto}}}}",
                f"{k0}_{{{k0}}}/id/{{job.id}}",
                f"{{job.sp.{k0}}}/{{job.id}}",
            ])
            if uni in ("pathy", "escaping") and rng.random() < 0.7:
                path = rng.choice(["/".join(f"{k}/{{{k}}}" for k in keys), "_".join(f"{{{k}}}" for k in keys),
                                   "/".join(f"{k}/{{{k}}}" for k in reversed(keys))])
        elif spec == "fn":
            path = ["fn", rng.choice(["id", "id_nested", "const", "first_key", "leafnode", "leafnode_rev"])]
        target = rng.choice(["dir", "dir", ".zip", ".zip", ".tar", ".tar.gz", ".tar.bz2", ".tar.xz"])
        schema = rng.choice(["none", "none", "string", "callable"])
        if schema_focus:
            schema = "string"
            # one value per path component: a '_'-joined layout would be ambiguous for \w+ fields
            path = "/".join(f"{k}/{{{k}}}" for k in keys)
            target = rng.choice(["dir", "dir", "dir", ".zip", ".tar", ".tar.gz"])
        if rng.random() < 0.03 and not schema_focus:
            # a layout that spells only one of the keys (the others are constant over the jobs, so the paths are
            # unique), imported with the schema string of exactly that layout: the state point files know more
            # than the schema derives - the import must refuse or reproduce the project
            uni = "schema_words"
            w = rng.choice(["alpha", "beta_2", "A1"])
            flag = rng.choice([True, False])
            jobs = [{"sp": {"w": w, "a": a, "flag": flag}, "doc": {"i": i}, "files": {"f1": f"DATA:{i}:f1"}}
                    for i, a in enumerate(rng.sample([1, 10, 11, 100], rng.randrange(1, 4)))]
            path = "a/{a}"
            schema = "string"
            target = rng.choice(["dir", "dir", ".zip", ".tar", ".tar.gz"])
        move = target == "dir" and rng.random() < 0.15
        return {"knobs": knobs, "universe": uni, "jobs": jobs, "path": path, "target": target, "move": move,
                "schema": schema, "conflict_job": rng.randrange(0, 12) if rng.random() < 0.35 else None,
                "foreign": rng.random() < 0.5, "import_sync": rng.random() < 0.12,
                # positions (fractions of the import's reads of the exported data) at which one read fails
                "place": "prefix" if rng.random() < 0.1 else None,
                "io_fault": sorted(rng.random() for _ in range(rng.randrange(1, 4))) if rng.random() < 0.3 else None}

    def shrink(self, scenario):
        jobs = scenario["jobs"]
        for c in generic_shrink(scenario, "jobs"):
            yield c
        for i, j in enumerate(jobs):
            if j["files"] or j["doc"]:
                c = dict(scenario)
                c["jobs"] = [dict(x) for x in jobs]
                c["jobs"][i]["files"] = {}
                c["jobs"][i]["doc"] = {}
                yield c
        if scenario["knobs"]["listing"] != "sorted":
            c = dict(scenario)
            c["knobs"] = dict(scenario["knobs"], listing="sorted")
            yield c
        if scenario.get("conflict_job") is not None:
            c = dict(scenario)
            c["conflict_job"] = None
            yield c

    def sample(self, scenario, result):
        return {"universe": scenario["universe"], "sps": [j["sp"] for j in scenario["jobs"]],
                "path": scenario["path"], "target": scenario["target"], "schema": scenario["schema"],
                "outcome": result.get("outcome")}

    # ------------------------------------------------------------------
    def execute(self, sc, ctx):
        import signac

        install_locks()
        install_pools(2)
        res = {"violations": [], "keys": [], "stats": {"faults": {}, "probes": {}}, "nontrivial": False}
        root = os.path.join(ctx.scratch, "w")
        with SimWorld(root, seed=sc.get("seed", 0), knobs=sc["knobs"]) as world:
            Run(self.prop, sc, world, res, signac).go()
            res["digest"] = world.digest()
            res["stats"]["steps"] = world.seq
            res["stats"]["sim_ms"] = world.clock_ms - 1_000_000_000_000
        return res


def path_callable(kind, jobs_order):
    if kind == "id":
        return lambda job: job.id
    if kind == "id_nested":
        return lambda job: os.path.join(job.id[:2], job.id)
    if kind == "const":
        return lambda job: "same"
    if kind == "first_key":
        return lambda job: "k_" + str((sorted(job.sp().items()) or [("", "empty")])[0][1])
    first = jobs_order[0] if jobs_order else None
    if kind == "leafnode":
        # the first job is a leaf 'p', every other job lives below it
        return lambda job: "p" if job.id == first else os.path.join("p", job.id)
    # leafnode_rev: the first job lives below the others' leaf
    return lambda job: os.path.join("q", "r") if job.id == first else "q"


class Run:
    def __init__(self, prop, sc, world, res, signac):
        self.prop, self.sc, self.world, self.res, self.signac = prop, sc, world, res, signac

    def v(self, cls, msg, fp=None):
        self.res["violations"].append(viol("C16", cls, msg, fp or cls))

    def probe(self, k):
        self.res["stats"]["probes"][k] = self.res["stats"]["probes"].get(k, 0) + 1

    def build(self, path):
        p = self.signac.init_project(path)
        for j in self.sc["jobs"]:
            job = p.open_job(j["sp"]).init()
            if j["doc"]:
                job.doc.reset(j["doc"])
            write_payload(job.path, j["files"])
        return p

    def monitor(self, allowed):
        """Record mutating calls outside the allowed world-relative prefixes."""
        bad = []

        def m(kind, rel, rel2):
            if kind not in MUTATING:
                return
            for r in (rel, rel2) if kind in ("rename", "link") else (rel,):
                if r is None:
                    continue
                r = str(r)
                if not any((r.startswith(a[:-1]) if a.endswith("*") else
                            r == a or r.startswith(a.rstrip("/") + "/")) for a in allowed):
                    bad.append((kind, r))
        return m, bad

    @quiet
    def target_content(self, target):
        """Job content found in the export target: list of member / file names."""
        if not os.path.lexists(target):
            return []
        if os.path.isdir(target):
            return sorted(r for r, e in snapshot(target).items() if e[0] != "d")
        try:
            if zipfile.is_zipfile(target):
                with zipfile.ZipFile(target) as z:
                    return sorted(z.namelist())
            if tarfile.is_tarfile(target):
                with tarfile.open(target) as t:
                    return sorted(m.name for m in t.getmembers() if not m.isdir())
        except Exception:
            return ["<unreadable archive>"]
        return []

    def expected_paths(self, project):
        """For path specs this engine can evaluate itself: {job id: path}; else None."""
        sc = self.sc
        path = sc["path"]
        ids = [cid(j["sp"]) for j in sc["jobs"]]
        if path is False:
            return {i: i for i in ids}
        if isinstance(path, list):
            with self.world.observing():
                order = [j.id for j in project]
            fn = path_callable(path[1], sorted(ids))
            out = {}
            for j in sc["jobs"]:
                class _J:
                    pass
                jj = _J()
                jj.id = cid(j["sp"])
                jj.sp = (lambda sp: (lambda: sp))(j["sp"])
                out[jj.id] = fn(jj)
            return out
        if isinstance(path, str) and "auto" not in path:
            out = {}
            for j in sc["jobs"]:
                jid = cid(j["sp"])
                try:
                    class _J:
                        pass
                    jj = _J()
                    jj.id = jid
                    jj.sp = _J()
                    for k, v in j["sp"].items():
                        setattr(jj.sp, k, v)
                    out[jid] = os.path.normpath(path.format(job=jj, **j["sp"]))
                except (KeyError, IndexError, AttributeError):
                    return None
            return out
        return None

    @staticmethod
    def paths_conflict(paths):
        vals = list(paths.values())
        if len(set(vals)) != len(vals):
            return "non-unique"
        vs = set(vals)
        for p in vals:
            parts = p.split(os.sep)
            for i in range(1, len(parts)):
                if os.sep.join(parts[:i]) in vs:
                    return "leaf-node"
        return None

    # ------------------------------------------------------------------
    def go(self):
        sc, world, signac = self.sc, self.world, self.signac
        src_path = world.p("src")
        project = self.build(src_path)
        snap_src = snapshot(src_path, mtimes=True)
        ids = sorted(cid(j["sp"]) for j in sc["jobs"])
        tname = "export" + ("" if sc["target"] == "dir" else sc["target"])
        if sc.get("place") == "prefix" and sc["target"] == "dir":
            # the export lies inside the importing project's directory, next to its workspace and with a name
            # that starts like it (it is not part of the workspace)
            tname = "dst/workspace_export"
            with world.observing():
                os.makedirs(world.p("dst"), exist_ok=True)
            self.probe("export_next_to_workspace")
        target = world.p(tname)
        path = sc["path"]
        sorted_ids = sorted(ids)
        path_arg = path_callable(path[1], sorted_ids) if isinstance(path, list) else path
        exp_paths = self.expected_paths(project)
        conflict = self.paths_conflict(exp_paths) if exp_paths else None
        # ---- export ------------------------------------------------------------------------
        move = bool(sc.get("move"))
        src_raw0 = raw_project(src_path)
        # when moving, the source jobs' directories are (only) renamed away
        mon, bad = self.monitor([tname, "tmp"] + (["src/workspace"] if move else []))
        world.monitors.append(mon)
        log0 = len(world.log)
        try:
            project = signac.Project(src_path)
            if move:
                import shutil
                project.export_to(target, path=path_arg, copytree=shutil.move)
                self.probe("export_by_moving")
            else:
                project.export_to(target, path=path_arg)
            exc = None
        except Exception as e:  # noqa: BLE001 - outcome classified below
            exc = e
        finally:
            world.monitors.remove(mon)
        seg = world.log[log0:]
        got = type(exc).__name__ if exc is not None else None
        pkind = ("fn:" + path[1]) if isinstance(path, list) else ("fmt" if isinstance(path, str) else str(path))
        key = f"{sc['universe']}|{sc['target']}|{pkind}|{sc['schema']}|n={len(ids)}|exp={got}"
        self.res["outcome"] = f"export: {got or 'ok'}"
        if bad:
            self.v("C16:export:wrote-outside-target", f"export_to mutated {bad[:4]} (target {tname})")
        if not move and snapshot(src_path, mtimes=True) != snap_src:
            self.v("C16:export:source-changed", "export_to changed the source project")
        if move and (exc is not None or conflict):
            # a refused export must not have moved anything either
            if raw_project(src_path) != src_raw0:
                self.v("C16:export:refused-move-changed-source",
                       f"export_to(copytree=shutil.move) raised {got} but source jobs are gone or changed")
        content = self.target_content(target)
        if conflict and len(ids) > 0:
            self.probe("conflicting_paths_" + conflict)
            muts = [e for e in seg if e[2] in MUTATING]
            if exc is None:
                self.v("C16:export:conflicting-paths-accepted",
                       f"paths {sorted(exp_paths.values())[:6]} are {conflict} but export_to succeeded",
                       f"C16:export:{conflict}-paths-accepted")
            elif content:
                self.v("C16:export:conflicting-paths-rejected-after-copying",
                       f"paths are {conflict}; export_to raised {got} but the target already holds {content[:4]}",
                       f"C16:export:{conflict}-paths-rejected-after-copying")
            self.res["keys"].append(key)
            self.res["nontrivial"] = True
            return
        if exc is not None:
            self.res["nontrivial"] = True
            if content:
                self.v("C16:export:raised-after-copying",
                       f"export_to raised {got}: {str(exc)[:160]} but the target already holds job content "
                       f"{content[:4]} ({len(content)} entries)",
                       f"C16:export:raised-after-copying:{got}:{pkind}")
            self.res["keys"].append(key)
            return
        if ids:
            self.res["nontrivial"] = True
        # ---- import into an empty project ------------------------------------------------------
        dst_path = world.p("dst")
        dproj = signac.init_project(dst_path)
        schema_arg, schema_kind = self.schema_arg(exp_paths, target)
        if schema_kind == "string" and sc["target"] == "dir" and sc.get("foreign"):
            # a foreign data space: the state point is known from the path alone
            with world.observing():
                for rel in (exp_paths or {}).values():
                    f = os.path.join(target, rel, SP_FILE)
                    if os.path.isfile(f):
                        O.unlink(f)
            self.probe("foreign_data_space")
            schema_kind = "string-foreign"
        allowed = ["dst/workspace/" + i for i in ids] + ["tmp", "dst/workspace"]
        ikw = {}
        if sc.get("import_sync"):
            # import_from(sync=True) imports into a temporary project inside the workspace and
            # synchronises from there; into an empty project that must equal a plain import
            ikw["sync"] = True
            allowed.append("dst/workspace/tmp*")
            self.probe("import_with_sync")
        mon, bad = self.monitor(allowed)
        world.monitors.append(mon)
        try:
            dproj = signac.Project(dst_path)
            dproj.import_from(target, schema=schema_arg, **ikw)
            iexc = None
        except Exception as e:  # noqa: BLE001
            iexc = e
        finally:
            world.monitors.remove(mon)
        igot = type(iexc).__name__ if iexc is not None else None
        self.res["outcome"] += f"; import({schema_kind}): {igot or 'ok'}"
        self.res["keys"].append(key + f"|{schema_kind}|imp={igot}")
        # only directory creation is allowed directly in the workspace
        bad = [b for b in bad if not (b[1] == "dst/workspace")] + \
              [b for b in bad if b[1] == "dst/workspace" and b[0] != "mkdir"]
        if bad:
            self.v("C16:import:wrote-outside-job-directories",
                   f"import_from mutated {bad[:4]}; imported job directories are {[i[:8] for i in ids]}",
                   "C16:import:wrote-outside-job-directories:" + sc["target"])
        src_raw = src_raw0 if move else raw_project(src_path)
        if move and raw_project(src_path):
            self.v("C16:export:move-left-jobs-behind", f"after a moving export the source still holds "
                   f"{sorted(x[:8] for x in raw_project(src_path))}")
        dst_raw = raw_project(dst_path)
        if iexc is not None:
            if dst_raw or self.stray(dst_path, ids):
                self.v("C16:import:raised-after-copying",
                       f"import_from raised {igot}: {str(iexc)[:160]} but the project already holds "
                       f"{sorted(x[:8] for x in dst_raw)} / {self.stray(dst_path, ids)[:3]}",
                       f"C16:import:raised-after-copying:{igot}")
            return
        self.compare(src_raw, dst_raw, f"target {sc['target']}, path {pkind}, schema {schema_kind}")
        stray = self.stray(dst_path, ids)
        if stray:
            self.v("C16:import:entries-outside-job-directories", f"after import: {stray[:5]}",
                   "C16:import:entries-outside-job-directories:" + sc["target"])
        if not move and snapshot(src_path, mtimes=True) != snap_src:
            self.v("C16:import:source-changed", "import changed the exported source project")
        # ---- the same import when one read of the exported data fails ---------------------------
        if sc.get("io_fault") and ids and not move:
            self.import_under_io_error(target, tname, schema_arg, src_raw, ikw, schema_kind)
        # ---- import onto an existing id ---------------------------------------------------------
        if sc.get("conflict_job") is not None and ids:
            self.probe("import_onto_existing")
            cj = sc["jobs"][sc["conflict_job"] % len(sc["jobs"])]
            q_path = world.p("dst2")
            q = signac.init_project(q_path)
            job = q.open_job(cj["sp"]).init()
            job.doc["mine"] = True
            write_payload(job.path, {"own.txt": "OWN"})
            before = snapshot(job.path)
            try:
                signac.Project(q_path).import_from(target, schema=schema_arg)
                qexc = None
            except Exception as e:  # noqa: BLE001
                qexc = e
            if snapshot(job.path) != before:
                self.v("C16:import:existing-job-modified",
                       f"importing onto existing job {job.id[:8]} changed it (raised "
                       f"{type(qexc).__name__ if qexc else None})")
            elif qexc is None or "DestinationExistsError" not in [c.__name__ for c in type(qexc).__mro__]:
                self.v("C16:import:existing-job-not-refused",
                       f"importing onto existing job {job.id[:8]} ended with "
                       f"{type(qexc).__name__ if qexc else 'success'}")

    def import_under_io_error(self, target, tname, schema_arg, src_raw, ikw, schema_kind):
        """One open / read / directory listing of the exported data fails with EIO while it is imported
        into another empty project: the call raises, or the import is complete all the same - never a
        normal return with jobs, documents or files missing."""
        world, signac, sc = self.world, self.signac, self.sc
        p3 = world.p("dst3")
        signac.init_project(p3)
        pre = snapshot(world.root, mtimes=True)

        def op():
            signac.Project(p3).import_from(target, schema=schema_arg, **ikw)

        status, info = run_op(world, op, FaultPlan(), timeout=50.0)
        with world.observing():
            restore(world.root, pre)
        if status != "ok" or info.get("outcome") != "ok":
            raise RuntimeError(f"fault-free trace run of the import ended with {status}: {str(info)[-300:]}")
        reads = [t for t in info["trace"] if t[1] in ("open", "read", "listdir", "scandir")
                 and str(t[2] or "").startswith(tname)]
        if not reads:
            self.probe("io_fault_nothing_to_fail")
            return
        for frac in sc["io_fault"]:
            t = reads[min(len(reads) - 1, int(frac * len(reads)))]
            fault = {"step": t[0], "kind": "errno", "errno": "EIO"}
            status, info = run_op(world, op, FaultPlan([fault]), after=lambda info: raw_project(p3), timeout=50.0)
            with world.observing():
                restore(world.root, pre)
            if status != "ok":
                raise RuntimeError(f"import under {fault} ended with {status}: {str(info)[-300:]}")
            if not info.get("fired"):
                continue
            self.res["stats"]["faults"]["errno"] = self.res["stats"]["faults"].get("errno", 0) + 1
            self.res["keys"].append(f"iofault|{sc['target']}|{schema_kind}|{t[1]}|{info['outcome']}")
            if info["outcome"] != "ok":
                self.probe("io_fault_raised")
                continue
            got = info["after"]
            complete = set(got) == set(src_raw) and all(
                same(src_raw[j]["sp"][1], got[j]["sp"][1]) and src_raw[j]["files"] == got[j]["files"]
                and same(src_raw[j]["doc"][1] if src_raw[j]["doc"][0] == "ok" else {},
                         got[j]["doc"][1] if got[j]["doc"][0] == "ok" else {}) for j in src_raw)
            if complete:
                self.probe("io_fault_tolerated")
                continue
            missing = sorted(set(src_raw) - set(got))
            self.v("C16:import:io-error-swallowed",
                   f"{t[1]} of {t[2]} failed with EIO during import_from ({sc['target']}, schema {schema_kind}); "
                   f"the call returned normally but the project lacks {[m[:8] for m in missing]} or differs in "
                   f"{[j[:8] for j in src_raw if j in got and (src_raw[j]['files'] != got[j]['files'])][:3]}",
                   f"C16:import:io-error-swallowed:{sc['target']}:{t[1]}")

    @quiet
    def stray(self, project_path, ids):
        """Entries in the importing project that are not below an imported job's directory."""
        out = []
        ws = os.path.join(project_path, "workspace")
        for r, e in snapshot(project_path).items():
            if r.startswith(".signac") or r == "workspace" or r.split("/")[0] == "workspace_export":
                continue
            if r.startswith("workspace/"):
                top = r.split("/")[1]
                if top in ids:
                    continue
            out.append(r)
        return out

    def schema_arg(self, exp_paths, target):
        """(schema argument, kind).  A schema string is used only when this engine knows the exported
        layout and every value is representable by the schema types."""
        sc = self.sc
        kind = sc["schema"]
        if kind == "callable" and sc["target"] == "dir":
            def fn(path):
                try:
                    with open(os.path.join(path, SP_FILE), "rb") as f:
                        return json.loads(f.read().decode())
                except (FileNotFoundError, NotADirectoryError):
                    return None
            return fn, "callable"
        if kind == "string" and isinstance(sc["path"], str) and "auto" not in sc["path"] \
                and "job." not in sc["path"] and "}_" not in sc["path"] and "_{" not in sc["path"]:
            types = {}
            ok = True
            for j in sc["jobs"]:
                for k, v in j["sp"].items():
                    t = ("bool" if isinstance(v, bool) else "int" if isinstance(v, int) else
                         "float" if isinstance(v, float) else "str" if isinstance(v, str) else None)
                    if t is None or types.setdefault(k, t) != t:
                        ok = False
                    if t == "str" and not (v and all(c.isalnum() or c == "_" for c in v)):
                        ok = False
                    if t == "float" and ("e" in repr(v) or "inf" in repr(v) or "nan" in repr(v)):
                        ok = False
            keys_in_path = [k for k in types if "{" + k + "}" in sc["path"]]
            all_keys = set()
            for j in sc["jobs"]:
                all_keys |= set(j["sp"])
            full = set(keys_in_path) == all_keys and all(set(j["sp"]) == all_keys for j in sc["jobs"])
            if ok and keys_in_path and (full or all(set(keys_in_path) <= set(j["sp"]) for j in sc["jobs"])):
                s = sc["path"]
                for k in keys_in_path:
                    s = s.replace("{" + k + "}", "{" + k + ":" + types[k] + "}")
                self.probe("schema_string_used" if full else "schema_string_partial")
                # a schema that names only some of the keys: the state point files disagree with what it
                # derives, so the import must refuse (or, were it to succeed, reproduce the project)
                return s, "string" if full else "string-partial"
        return None, "none"

    def compare(self, src_raw, dst_raw, ctx):
        if set(src_raw) != set(dst_raw):
            missing = sorted(set(src_raw) - set(dst_raw))
            extra = sorted(set(dst_raw) - set(src_raw))
            self.v("C16:roundtrip:job-set-differs",
                   f"{ctx}: after export+import missing {[m[:8] for m in missing]} "
                   f"({[src_raw[m]['sp'][1] for m in missing][:3]}), extra {[e[:8] for e in extra]} "
                   f"({[dst_raw[e]['sp'][1] for e in extra][:3]})",
                   "C16:roundtrip:job-set-differs:" + self.sc["target"] + ":" + ("dropped" if missing and not extra
                                                                               else "retyped-or-merged"))
            return
        for jid, sj in src_raw.items():
            dj = dst_raw[jid]
            if not same(sj["sp"][1], dj["sp"][1]):
                self.v("C16:roundtrip:statepoint-differs", f"{ctx}: {jid[:8]} {sj['sp'][1]} vs {dj['sp'][1]}")
            sd = sj["doc"][1] if sj["doc"][0] == "ok" else {}
            dd = dj["doc"][1] if dj["doc"][0] == "ok" else {}
            if not same(sd, dd):
                self.v("C16:roundtrip:document-differs", f"{ctx}: {jid[:8]} document {sd} vs {dd}")
            if sj["files"] != dj["files"]:
                self.v("C16:roundtrip:files-differ",
                       f"{ctx}: {jid[:8]} files {sorted(sj['files'])} vs {sorted(dj['files'])}",
                       "C16:roundtrip:files-differ:" + self.sc["target"])

"""Engine `syncm` (C13, C14, C15): one generator of project pairs and sync options,
three oracles.

Pairs: 0-4 jobs a side over a shared state point universe; files identical /
differing (same or different size) / one-sided, at top level and nested, with
explicit simulated mtimes older / equal / newer (incl. differing content with
equal size and equal mtime); documents flat / nested / conflicting at depth 1-3;
project documents.  Options: strategy, doc_sync, recursive, exclude, selection,
check_schema, deep, dry_run, parallel, entry point.

Fault / nondeterminism dimension: clock policy (which decides `update` and the
shallow comparison), directory-listing order, thread interleaving of the parallel
variant (SimPool), and the mutation log as the dry-run oracle.
"""

import copy
import json
import os
import shutil

from machines.common import (DOC_FILE, PDOC_FILE, SP_FILE, cid, norm, quiet, raw_project, read_json, same, viol)
from model import sync_ref
from simcore.driver import EngineBase, generic_shrink
from simcore.sched import SimPool, install_locks, install_pools
from simcore.faultenum import run_op
from simcore.world import MUTATING, FaultPlan, O, SimWorld, restore, snapshot

FILES = ["f1", "f2", "x.log", "sub/g", "sub/x.log", "sub/deep/h", ".hid", "sub/.hid"]
T0 = 1_000_000_000_000  # ms


def gen_doc_pair(rng):
    """(src doc, dst doc) with a seeded mix of one-sided, equal and conflicting keys."""
    s, d = {}, {}
    shape = rng.choice(["empty", "flat", "flat", "nested", "nested", "deep", "mixed"])
    if shape == "empty":
        return (s, d) if rng.random() < 0.5 else ({"k1": 1}, {})
    for k in ("k1", "k2", "k3"):
        r = rng.random()
        if r < 0.25:
            s[k] = rng.randrange(3)
        elif r < 0.45:
            d[k] = rng.randrange(3)
        elif r < 0.7:
            s[k] = d[k] = rng.randrange(3)
        elif r < 0.9:
            s[k], d[k] = 10 + rng.randrange(3), 20 + rng.randrange(3)
    if shape in ("nested", "deep", "mixed"):
        sn, dn = {}, {}
        for k in ("a", "b"):
            r = rng.random()
            if r < 0.3:
                sn[k] = rng.randrange(3)
            elif r < 0.5:
                dn[k] = rng.randrange(3)
            elif r < 0.7:
                sn[k] = dn[k] = 1
            else:
                sn[k], dn[k] = 10, 20
        if shape == "deep":
            r = rng.random()
            if r < 0.5:
                sn["c"], dn["c"] = {"x": 10, "y": 1}, {"x": 20, "z": 2}
            else:
                sn["c"], dn["c"] = {"x": {"q": 10}}, {"x": {"q": 20, "r": 0}}
        s["n"], d["n"] = sn, dn
        if shape == "mixed":
            r = rng.random()
            if r < 0.35:
                s["m"], d["m"] = 5, {"x": 1}
            elif r < 0.7:
                s["m"], d["m"] = {"x": 1}, rng.choice([5, "abc", [1], None])
            else:
                s["m"], d["m"] = "s", 7
    return s, d


class Engine(EngineBase):
    def budget(self, tier):
        return (2500, 55.0) if tier == "quick" else (60000, 900.0)

    def run_timeout(self, tier):
        return 90.0

    def rule(self):
        return ("seeded project pairs (0-4 jobs a side, overlapping/disjoint ids, files identical / differing "
                "with same or different size and older/equal/newer simulated mtimes / one-sided, nested "
                "directories, documents flat/nested/deep/mixed-type, project documents) x option combinations "
                "(strategy None/always/never/update/custom, doc_sync default/ByKey(fn)/ByKey(regex)/update/"
                "NO_SYNC/COPY, recursive, exclude, selection by job/id, check_schema, deep, dry_run, parallel "
                "False/2/True, entry point Project.sync / sync_projects / Job.sync / sync_jobs), listing order "
                "permuted, parallel variant under seeded thread interleaving; 20% of the C13/C14 scenarios start from "
                "the debris of an earlier run of the same sync that died at a seeded step (forked clone). distinct = (option tuple, conflict "
                "classes present, outcome) ; non-trivial = something was copied, merged or refused")

    def stubs(self):
        return super().stubs() + ["ThreadPool -> SimPool (thread-actors under the seeded scheduler)"]

    # ------------------------------------------------------------------
    def generate(self, rng, tier):
        P = self.prop
        knobs = {"listing": rng.choice(["shuffle", "sorted", "reverse"]), "chunk": "none",
                 "clock": rng.choice(["inc", "coarse", "stall", "back"]), "pool": rng.randrange(1, 4)}
        universe = [{"a": i} for i in range(5)]
        ns, nd = rng.randrange(0, 5), rng.randrange(0, 5)
        src_idx = rng.sample(range(5), ns)
        dst_idx = rng.sample(range(5), nd)
        if src_idx and rng.random() < 0.7:
            # make overlap likely
            dst_idx = list({*dst_idx, *rng.sample(src_idx, rng.randrange(1, len(src_idx) + 1))})[:4]
        src_jobs, dst_jobs = {}, {}
        for i in sorted(set(src_idx) | set(dst_idx)):
            sdoc, ddoc = gen_doc_pair(rng)
            sf, df = {}, {}
            for name in FILES:
                r = rng.random()
                if r < 0.35:
                    continue
                size_same = rng.random() < 0.5
                rel = rng.choice(["older", "equal", "newer"])
                ts = T0 + 50_000
                td = ts + {"older": 10_000, "equal": 0, "newer": -10_000}[rel]  # src older/equal/newer than dst
                if r < 0.5:
                    sf[name] = [f"S{i}:{name}", ts]
                elif r < 0.62:
                    df[name] = [f"D{i}:{name}", td]
                elif r < 0.75:
                    sf[name] = [f"same{i}:{name}", ts]
                    df[name] = [f"same{i}:{name}", td]
                else:
                    sf[name] = [f"SRC{i}:{name}", ts]
                    df[name] = [f"DST{i}:{name}" if size_same else f"DST{i}:{name}:longer", td]
            if i in src_idx:
                tops = sorted(n for n in sf if "/" not in n)
                if tops and rng.random() < 0.15:
                    # a source file that is a symbolic link to another file of the job (links are followed)
                    sf["lnk"] = ["@link:" + rng.choice(tops), T0 + 50_000]
                    if rng.random() < 0.4:
                        df["lnk"] = [f"DSTLNK{i}", T0 + 50_000 + rng.choice([-10_000, 0, 10_000])]
                src_jobs[str(i)] = {"sp": universe[i], "doc": sdoc, "files": sf}
            if i in dst_idx:
                dst_jobs[str(i)] = {"sp": universe[i], "doc": ddoc, "files": df}
        spd, dpd = gen_doc_pair(rng)
        strategy = rng.choice([None, None, "always", "never", "update", "update", "custom"])
        if strategy == "custom":
            strategy = ["custom", sorted(rng.sample(FILES, rng.randrange(0, 4)))]
        ds = rng.choice([None, None, "ByKey", "bykey_fn", "bykey_fn", "bykey_regex", "update", "NO_SYNC", "COPY",
                         "custom_raise"])
        if ds == "bykey_fn":
            keys = ["k1", "k2", "k3", "n.a", "n.b", "n.c.x", "n.c.x.q", "m", "a", "b", "c.x", "x", "x.q"]
            ds = ["ByKey", ["fn", sorted(rng.sample(keys, rng.randrange(0, 6)))]]
        elif ds == "bykey_regex":
            ds = ["ByKey", ["regex", rng.choice([r"k", r"n\.", r"n\.c", r".*x", r"k1$", r"a"])]]
        opts = {
            "strategy": strategy, "doc_sync": ds,
            "recursive": rng.random() < 0.5,
            "exclude": rng.choice([None, None, None, r".*\.log", r"f1", r"sub", r"f", r"log", r"1", r"g", r"x\.lo$",
                                   # patterns that also match signac's own files (state point, document)
                                   r".*\.json", r"signac", r".*"]),
            "selection": None, "selection_kind": rng.choice(["job", "id", "id", "id_gen"]),
            "check_schema": rng.random() < 0.3,
            "deep": rng.random() < 0.35,
            "dry_run": rng.random() < (0.45 if P == "C15" else 0.1),
            "parallel": rng.choice([False, False, 2, True]) if P == "C15" else rng.choice([False, False, False, 2]),
            "preserve": rng.choice([False, False, False, False, True, "perms", "all"]),
            "collect_stats": rng.random() < 0.15,
        }
        if ds == "custom_raise":
            # a user function that merges something and then raises: in a dry run it works on a proxy that
            # must not write, and the roll-back must not write either (a third of these scenarios)
            if rng.random() < 0.67:
                opts["dry_run"] = False
            if rng.random() < 0.5:
                # empty destination document: the roll-back uses the in-memory backup
                dpd = {}
                spd = spd or {"k1": 1}
        if P in ("C15", "C14") and opts["deep"] and rng.random() < 0.7:
            # deep only matters for differing files that look equal: make sure one exists
            both = sorted(set(src_jobs) & set(dst_jobs))
            if both:
                k = rng.choice(both)
                name = rng.choice(FILES)
                src_jobs[k]["files"][name] = [f"SRC{k}:{name}", T0 + 50_000]
                dst_jobs[k]["files"][name] = [f"DST{k}:{name}", T0 + 50_000]
                opts["strategy"] = rng.choice(["always", "always", None, ["custom", [name]]])
                if P != "C15" or rng.random() < 0.5:
                    # (a dry run with deep=True must report exactly the conflicts the real deep run meets)
                    opts["dry_run"] = False
                elif opts["dry_run"] and rng.random() < 0.6:
                    # ... which shows where the real run raises: without a strategy
                    opts["strategy"] = None
                if "/" in name:
                    opts["recursive"] = True
        if opts["exclude"] and rng.random() < 0.25:
            opts["exclude"] = [opts["exclude"], r"zzz"]  # the API also accepts a list of patterns
        if P == "C15" and opts["parallel"] and rng.random() < 0.6:
            # the parallel variant is only interesting when several existing jobs are synchronised at once
            both = sorted(set(src_jobs) & set(dst_jobs))
            for k in sorted(set(src_jobs))[:3]:
                if k not in dst_jobs:
                    dst_jobs[k] = {"sp": src_jobs[k]["sp"], "doc": {}, "files": {}}
                src_jobs[k]["doc"] = dict(src_jobs[k]["doc"], from_src=1)
                dst_jobs[k]["doc"] = dict(dst_jobs[k]["doc"], only_dst=k)
            if not isinstance(opts["exclude"], list):
                opts["exclude"] = [opts["exclude"] or r"zz", r"zzz"]
            opts["strategy"] = rng.choice(["always", "always", "update", None])
            opts["dry_run"] = False
            opts["selection"] = None
        if src_jobs and rng.random() < 0.35:
            # the selection is a set of ids: it may name jobs of the destination (selection=dst) or jobs
            # that exist in neither project's source side
            pool = sorted(set(src_jobs) | set(dst_jobs)) if rng.random() < 0.4 else sorted(src_jobs)
            opts["selection"] = sorted(rng.sample(pool, rng.randrange(0, len(pool) + 1)))
            if rng.random() < 0.3 and pool:
                # ... with exactly as many ids as the source has jobs
                opts["selection"] = sorted(rng.sample(pool, min(len(pool), len(src_jobs))))
        precrash = None
        if ((P in ("C13", "C14") and not opts["dry_run"]) or (P == "C15" and opts["dry_run"])) \
                and not opts["parallel"] and rng.random() < 0.2:
            # debris of an earlier, crashed run of the same sync (a real run, also where the scenario's own
            # call is a dry run): [position in its trace, prefer the document window?]
            precrash = [rng.random(), rng.random() < (0.6 if P != "C15" else 0.85)]
        entry = rng.choice(["Project.sync", "Project.sync", "sync_projects", "Job.sync", "sync_jobs"])
        pair = None
        if entry in ("Job.sync", "sync_jobs"):
            cands = sorted(set(src_jobs) | set(dst_jobs))
            if not cands:
                entry = "Project.sync"
            else:
                pair = rng.choice(cands)
        # job level: the destination job directory exists but has lost its state point file (debris of an
        # interrupted init); the handle knows the state point, a real sync re-creates the file, a dry run
        # must not
        bare = entry in ("Job.sync", "sync_jobs") and pair in dst_jobs and pair in src_jobs and rng.random() < 0.12
        if P == "C15" and rng.random() < 0.04:
            # the plain constellation "a dry run of a deep sync meets the conflict the real run would": one
            # file on both sides with equal size and timestamp and different content, no strategy, no filters
            k = "0"
            name = rng.choice([f for f in FILES if "/" not in f] or FILES)
            for jobs, tag in ((src_jobs, "SRC"), (dst_jobs, "DST")):
                jobs.setdefault(k, {"sp": universe[0], "doc": {}, "files": {}})
                jobs[k]["files"][name] = [f"{tag}{k}:{name}", T0 + 50_000]
            opts.update(deep=True, dry_run=True, strategy=None, exclude=None, selection=None, parallel=False,
                        doc_sync=rng.choice([None, "NO_SYNC", "update"]))
            if entry in ("Job.sync", "sync_jobs"):
                pair = k
            precrash, bare = None, False
        return {"knobs": knobs, "src": {"doc": spd, "jobs": src_jobs}, "dst": {"doc": dpd, "jobs": dst_jobs},
                "opts": opts, "entry": entry, "pair": pair, "precrash": None if bare else precrash,
                "dst_bare_sp": bare}

    def shrink(self, scenario):
        if scenario.get("precrash") is not None:
            c = copy.deepcopy(scenario)
            c["precrash"] = None
            yield c
        for side in ("src", "dst"):
            jobs = scenario[side]["jobs"]
            for k in sorted(jobs):
                if k == scenario.get("pair"):
                    continue
                c = copy.deepcopy(scenario)
                del c[side]["jobs"][k]
                if c["opts"]["selection"]:
                    c["opts"]["selection"] = [x for x in c["opts"]["selection"]
                                              if x in c["src"]["jobs"] or x in c["dst"]["jobs"]]
                yield c
        for side in ("src", "dst"):
            for k in sorted(scenario[side]["jobs"]):
                for f in sorted(scenario[side]["jobs"][k]["files"]):
                    c = copy.deepcopy(scenario)
                    del c[side]["jobs"][k]["files"][f]
                    yield c
                if scenario[side]["jobs"][k]["doc"]:
                    c = copy.deepcopy(scenario)
                    c[side]["jobs"][k]["doc"] = {}
                    yield c
            if scenario[side]["doc"]:
                c = copy.deepcopy(scenario)
                c[side]["doc"] = {}
                yield c
        o = scenario["opts"]
        for key, simple in (("parallel", False), ("preserve", False), ("check_schema", False),
                            ("selection", None), ("exclude", None), ("recursive", False)):
            if o[key] != simple:
                c = copy.deepcopy(scenario)
                c["opts"][key] = simple
                yield c

    def sample(self, scenario, result):
        return {"opts": scenario["opts"], "entry": scenario["entry"], "precrash": scenario.get("precrash"),
                "src_jobs": {k: {"files": v["files"], "doc": v["doc"]} for k, v in scenario["src"]["jobs"].items()},
                "dst_jobs": {k: {"files": v["files"], "doc": v["doc"]} for k, v in scenario["dst"]["jobs"].items()},
                "outcome": result.get("outcome")}

    # ------------------------------------------------------------------
    def execute(self, sc, ctx):
        import signac

        install_locks()
        install_pools(width=sc["knobs"].get("pool", 2))
        res = {"violations": [], "keys": [], "stats": {"faults": {}, "probes": {}}, "nontrivial": False}
        root = os.path.join(ctx.scratch, "w")
        with SimWorld(root, seed=sc.get("seed", 0), knobs=sc["knobs"]) as world:
            Run(self.prop, sc, world, res, signac).go()
            res["ikeys"] = sorted(SimPool.interleavings)
            res["digest"] = world.digest()
            res["stats"]["steps"] = world.seq
            res["stats"]["sim_ms"] = world.clock_ms - T0
        return res


@quiet
def build_project(signac, path, spec):
    p = signac.init_project(path)
    if spec["doc"]:
        p.doc.reset(spec["doc"])
    for key in sorted(spec["jobs"]):
        j = spec["jobs"][key]
        job = p.open_job(j["sp"]).init()
        if j["doc"]:
            job.doc.reset(j["doc"])
        for rel, (content, mt) in sorted(j["files"].items()):
            full = os.path.join(job.path, rel)
            os.makedirs(os.path.dirname(full), exist_ok=True)
            if content.startswith("@link:"):
                O.symlink(content[6:], full)
                continue
            with O.io_open(full, "wb") as f:
                f.write(content.encode())
            O.utime(full, ns=(mt * 1_000_000, mt * 1_000_000))
        # give the document file a definite simulated mtime too (it is an ordinary file under COPY)
        dfile = os.path.join(job.path, DOC_FILE)
        if os.path.exists(dfile):
            t = (T0 + 40_000) * 1_000_000
            O.utime(dfile, ns=(t, t))
    return p


@quiet
def project_model(path):
    """The reference model's view of a project on disk."""
    st, pdoc = read_json(os.path.join(path, PDOC_FILE))
    out = {"doc": pdoc if st == "ok" else {}, "jobs": {}}
    ws = os.path.join(path, "workspace")
    names = sorted(O.listdir(ws)) if os.path.isdir(ws) else []
    for name in names:
        d = os.path.join(ws, name)
        if not os.path.isdir(d):
            continue
        snap = snapshot(d, mtimes=True)
        files = {r: (e[1], e[2] // 1_000_000) for r, e in snap.items() if e[0] == "f" and r != SP_FILE}
        for r, e in snap.items():
            # a link to a file is what it points to (every comparison and copy of the sync follows links)
            if e[0] == "l":
                tgt = os.path.normpath(os.path.join(os.path.dirname(r), e[1]))
                if tgt in snap and snap[tgt][0] == "f":
                    files[r] = (snap[tgt][1], snap[tgt][2] // 1_000_000)
        st, sp = read_json(os.path.join(d, SP_FILE))
        st2, doc = read_json(os.path.join(d, DOC_FILE))
        out["jobs"][name] = {"sp": sp if st == "ok" else None, "doc": doc if st2 == "ok" else {},
                             "files": files, "sp_status": st,
                             "dirs": sorted(r for r, e in snap.items() if e[0] == "d")}
    return out


def make_strategy(signac, spec):
    FS = signac.sync.FileSync
    if spec is None:
        return None
    if spec == "always":
        return FS.always
    if spec == "never":
        return FS.never
    if spec == "update":
        return FS.update
    accept = set(spec[1])
    return lambda src, dst, fn: fn in accept


def make_doc_sync(signac, spec):
    DS = signac.sync.DocSync
    if spec is None:
        return None
    if spec == "ByKey":
        return DS.ByKey()
    if spec == "update":
        return DS.update
    if spec == "NO_SYNC":
        return DS.NO_SYNC
    if spec == "COPY":
        return DS.COPY
    if spec == "custom_raise":
        def partial_then_conflict(src, dst):
            # a user-defined sync function that fails after it already merged something
            if len(src.keys()) == 0:
                return
            for key in src.keys():
                dst[key] = src[key]
                break
            raise signac.errors.DocumentSyncConflict({"zz"})
        return partial_then_conflict
    kind, arg = spec[1]
    if kind == "regex":
        return DS.ByKey(arg)
    keys = set(arg)
    return DS.ByKey(lambda k: k in keys)


class Run:
    def __init__(self, prop, sc, world, res, signac):
        self.prop, self.sc, self.world, self.res, self.signac = prop, sc, world, res, signac
        self.V = res["violations"]

    def v(self, prop, cls, msg, fp=None):
        self.V.append(viol(prop, cls, msg, fp or cls))

    def probe(self, k):
        self.res["stats"]["probes"][k] = self.res["stats"]["probes"].get(k, 0) + 1

    # ------------------------------------------------------------------
    def call(self, src_path, dst_path, opts, dry_run=None, parallel=None):
        """Perform the scenario's sync call on the given project pair; returns the exception or None."""
        signac = self.signac
        sc = self.sc
        o = dict(opts)
        if dry_run is not None:
            o["dry_run"] = dry_run
        if parallel is not None:
            o["parallel"] = parallel
        src = signac.Project(src_path)
        dst = signac.Project(dst_path)
        kw = dict(recursive=o["recursive"], deep=o["deep"], dry_run=o["dry_run"])
        if o["preserve"] == "perms":
            kw.update(preserve_permissions=True)
        elif o["preserve"]:
            kw.update(preserve_permissions=True, preserve_times=True)
            if o["preserve"] == "all":
                kw.update(preserve_owner=True)
        strategy = make_strategy(signac, o["strategy"])
        doc_sync = make_doc_sync(signac, o["doc_sync"])
        entry = sc["entry"]
        try:
            if entry in ("Project.sync", "sync_projects"):
                sel = None
                if o["selection"] is not None:
                    ids = [self.sel_id(k) for k in o["selection"]]
                    sel = ids if o["selection_kind"] != "job" else [
                        (src if k in sc["src"]["jobs"] else dst).open_job(id=i) for k, i in zip(o["selection"], ids)]
                    if o["selection_kind"] == "id_gen":
                        sel = (x for x in ids)   # the selection is documented as an iterable
                kw.update(check_schema=o["check_schema"], parallel=o["parallel"])
                if o.get("collect_stats"):
                    kw.update(collect_stats=True)
                if entry == "Project.sync":
                    dst.sync(src, strategy=strategy, exclude=o["exclude"], doc_sync=doc_sync, selection=sel, **kw)
                else:
                    signac.sync.sync_projects(src, dst, strategy=strategy, exclude=o["exclude"],
                                              doc_sync=doc_sync, selection=sel, **kw)
            else:
                sp = (sc["src"]["jobs"].get(sc["pair"]) or sc["dst"]["jobs"][sc["pair"]])["sp"]
                sj, dj = src.open_job(sp), dst.open_job(sp)
                if entry == "Job.sync":
                    dj.sync(sj, strategy=strategy, exclude=o["exclude"], doc_sync=doc_sync, **kw)
                else:
                    signac.sync.sync_jobs(sj, dj, strategy=strategy, exclude=o["exclude"], doc_sync=doc_sync, **kw)
            return None
        except Exception as e:  # noqa: BLE001 - the outcome is compared with the reference
            return e

    def sel_id(self, k):
        sc = self.sc
        return cid((sc["src"]["jobs"].get(k) or sc["dst"]["jobs"][k])["sp"])

    @quiet
    def clone_pair(self, tag):
        s2, d2 = self.world.p("src" + tag), self.world.p("dst" + tag)
        shutil.copytree(self.world.p("src"), s2, symlinks=True)
        shutil.copytree(self.world.p("dst"), d2, symlinks=True)
        return s2, d2

    # ------------------------------------------------------------------
    def expected(self, ms, md):
        """Reference result: (expected destination model, conflicts list)."""
        sc = self.sc
        o = dict(sc["opts"])
        o["exclude"] = ([o["exclude"]] if isinstance(o["exclude"], str) else list(o["exclude"])) \
            if o["exclude"] else []
        conflicts = []
        if sc["entry"] in ("Project.sync", "sync_projects"):
            if o["selection"] is not None:
                o["selection"] = {self.sel_id(k) for k in o["selection"]}
            exp = sync_ref.sync_project(ms, md, o, conflicts)
        else:
            sp = (sc["src"]["jobs"].get(sc["pair"]) or sc["dst"]["jobs"][sc["pair"]])["sp"]
            jid = cid(sp)
            exp = copy.deepcopy(md)
            if jid in ms["jobs"]:
                base = md["jobs"].get(jid) or {"sp": sp, "doc": {}, "files": {}}
                exp["jobs"][jid] = sync_ref.sync_job(ms["jobs"][jid], base, o, conflicts)
                exp["jobs"][jid]["sp"] = sp   # (re-)created by the sync if the file was missing
                if conflicts and jid not in md["jobs"]:
                    pass
        return exp, conflicts

    def expected_shallow(self, ms, md):
        sc2 = copy.deepcopy(self.sc)
        sc2["opts"]["deep"] = False
        saved, self.sc = self.sc, sc2
        try:
            return self.expected(ms, md)[1]
        finally:
            self.sc = saved

    def go(self):
        sc, world, signac = self.sc, self.world, self.signac
        o = sc["opts"]
        sp_, dp_ = world.p("src"), world.p("dst")
        build_project(signac, sp_, sc["src"])
        build_project(signac, dp_, sc["dst"])
        if sc.get("dst_bare_sp") and sc["pair"] in sc["dst"]["jobs"]:
            with world.observing():
                f = os.path.join(dp_, "workspace", self.sel_id(sc["pair"]), SP_FILE)
                if os.path.exists(f):
                    O.unlink(f)
                    self.probe("destination_job_without_statepoint_file")
        if sc.get("precrash") is not None and not self.precrash(sp_, dp_, o):
            return
        ms, md = project_model(sp_), project_model(dp_)
        snap_s0 = snapshot(sp_, mtimes=True)
        snap_d0 = snapshot(dp_, mtimes=True)
        exp, conflicts = self.expected(ms, md)
        self._exp = exp
        want_exc = sorted({c[0] for c in conflicts})
        # copies for the comparisons C15 needs
        real_copy = self.clone_pair("_real") if o["dry_run"] else None
        seq_copy = self.clone_pair("_seq") if (o["parallel"] and not o["dry_run"]) else None
        log0 = len(world.log)
        exc = self.call(sp_, dp_, o)
        seg = world.log[log0:]
        got = type(exc).__name__ if exc is not None else None
        snap_s1 = snapshot(sp_, mtimes=True)
        snap_d1 = snapshot(dp_, mtimes=True)
        ma = project_model(dp_)
        self.res["outcome"] = got or "returned"
        optkey = (f"{sc['entry']}|st={o['strategy'] if not isinstance(o['strategy'], list) else 'custom'}|"
                  f"ds={o['doc_sync'] if not isinstance(o['doc_sync'], list) else 'ByKey:' + o['doc_sync'][1][0]}|"
                  f"rec={o['recursive']}|ex={o['exclude']}|sel={o['selection'] is not None}|deep={o['deep']}|"
                  f"dry={o['dry_run']}|par={o['parallel']}|want={want_exc}|got={got}")
        self.res["keys"].append(optkey)
        if snap_d1 != snap_d0 or exc is not None:
            self.res["nontrivial"] = True
        # ---- source untouched (C13) ------------------------------------------------------
        if snap_s1 != snap_s0:
            muts = [e for e in seg if e[2] in MUTATING and str(e[3]).startswith("src/")]
            self.v("C13", "C13:source-changed", f"the source project changed: {self.sdiff(snap_s0, snap_s1)}; "
                   f"mutating calls on it: {muts[:3]}")
        # ---- dry run (C15) ---------------------------------------------------------------
        if o["dry_run"]:
            self.probe("dry_run")
            strip = lambda sn: {k: v[:2] for k, v in sn.items()}  # noqa: E731
            if snap_d1 != snap_d0 and strip(snap_d1) == strip(snap_d0):
                # a file was rewritten with identical bytes (only its mtime moved): not a change
                self.probe("dry_run_same_content_rewrite")
            if strip(snap_d1) != strip(snap_d0):
                muts = [e for e in seg if e[2] in MUTATING and str(e[3]).startswith("dst/")]
                self.v("C15", "C15:dry-run:destination-changed",
                       f"dry run changed the destination: {self.sdiff(snap_d0, snap_d1)}; calls {muts[:3]}",
                       "C15:dry-run:destination-changed:" + self.dry_kind(snap_d0, snap_d1))
            exc_real = self.call(real_copy[0], real_copy[1], o, dry_run=False)
            greal = type(exc_real).__name__ if exc_real is not None else None
            # when several documents / files of a scenario fail, which failure is met first depends on the
            # order in which jobs are processed; a dry run must fail iff the real run fails
            both_fail = got is not None and greal is not None
            # (a user-defined document function that raises on its own accord is not a conflict a dry run
            # could foresee - e.g. for a destination job that does not exist yet it is not even called: for
            # it only "a dry run changes nothing" is decided)
            if got != greal and not both_fail and o["doc_sync"] != "custom_raise":
                self.v("C15", "C15:dry-run:outcome-differs-from-real-run",
                       f"dry run ended with {got}: {str(exc)[:160]}; the real run on a copy ended with {greal}",
                       f"C15:dry-run:ends-{got}-real-run-ends-{greal}")
            return
        # ---- unexpected / missing conflicts (C14) ------------------------------------------
        if got == "SchemaSyncConflict":
            if snap_d1 != snap_d0:
                self.v("C13", "C13:schema-conflict-but-changed", "SchemaSyncConflict raised but destination changed")
            self.probe("schema_conflict")
            return
        conflict_names = ("FileSyncConflict", "DocumentSyncConflict")
        if want_exc and got not in want_exc:
            shallow_conflicts = [c for c in self.expected_shallow(ms, md) if c[0] == "FileSyncConflict"]
            if got is None and o["deep"] and want_exc == ["FileSyncConflict"] and not shallow_conflicts:
                self.v("C15", "C15:deep-not-honoured",
                       f"deep=True: {conflicts[:2]} differ in content (equal size and mtime) but no "
                       f"FileSyncConflict was raised", "C15:deep-not-honoured:"
                       + ("project-level" if sc["entry"] in ("Project.sync", "sync_projects") else "job-level"))
            elif got is None:
                self.v("C14", "C14:conflict-not-raised",
                       f"the reference finds conflicts {conflicts[:3]} but the sync returned normally",
                       "C14:conflict-not-raised:" + want_exc[0])
            elif got not in conflict_names:
                self.other_exception(exc, got, snap_d0, snap_d1, md, ma)
                return
        if not want_exc and got is not None:
            if got in conflict_names:
                self.v("C14", "C14:unexpected-conflict",
                       f"no conflict by the reference semantics, but {got}: {str(exc)[:200]} was raised",
                       "C14:unexpected-" + got)
            else:
                self.other_exception(exc, got, snap_d0, snap_d1, md, ma)
            return
        if got is not None:
            self.check_aborted(exc, got, ms, md, ma, exp)
            return
        # ---- returned normally: exact comparison with the reference --------------------------
        self.compare(ms, md, ma, exp)
        if any(v["property"] == self.prop for v in self.V):
            return
        # idempotence (C13)
        exc2 = self.call(sp_, dp_, o)
        snap_d2 = snapshot(dp_)
        if snap_d2 != {k: v[:2] for k, v in snap_d1.items()}:
            self.v("C13", "C13:second-sync-not-idempotent",
                   f"repeating the sync {'raised ' + type(exc2).__name__ if exc2 is not None else 'changed'} "
                   f"{self.sdiff(snap_d1, snap_d2)}")
        # a later sync in the same process, after a source file was rewritten in place with the same
        # size and the same mtime: deep=True still has to notice (C15: "compared by content ...
        # regardless of size and timestamps"; a comparison remembered from the earlier call is stale)
        if o["deep"] and self.prop == "C15" and exc2 is None and not self.V:
            self.second_round(sp_, dp_, o)
            if any(v["property"] == self.prop for v in self.V):
                return
        # parallel == sequential (C15)
        if seq_copy is not None:
            self.probe("parallel")
            exc_seq = self.call(seq_copy[0], seq_copy[1], o, parallel=False)
            a = {k: v[:2] for k, v in snap_d1.items()}
            b = snapshot(seq_copy[1])
            if exc_seq is not None or a != b:
                self.v("C15", "C15:parallel-differs-from-sequential",
                       f"parallel={o['parallel']} left {self.sdiff(b, a)} different from the sequential run "
                       f"(sequential raised {type(exc_seq).__name__ if exc_seq else None})")

    # ------------------------------------------------------------------
    def precrash(self, sp_, dp_, o):
        """An earlier run of the same sync died at a seeded point of its trace; the scenario's sync then
        starts from whatever that left behind (half-copied files, a document backup file).  Returns False
        when the debris is outside what the sync properties speak about (a job without state point)."""
        world = self.world
        frac, prefer_doc = self.sc["precrash"]
        pre = snapshot(world.root, mtimes=True)
        src0 = snapshot(sp_, mtimes=True)
        status, info = run_op(world, lambda: self.call(sp_, dp_, o, dry_run=False), FaultPlan(), timeout=50.0)
        with world.observing():
            restore(world.root, pre)
        if status != "ok":
            raise RuntimeError(f"pre-crash trace run ended with {status}: {str(info)[-300:]}")
        steps = [t for t in info["trace"] if t[1] in MUTATING]
        docsteps = [t for t in steps if any(str(x or "").endswith(("~", DOC_FILE, PDOC_FILE)) for x in (t[2], t[3]))]
        pool = docsteps if (prefer_doc and docsteps) else steps
        if not pool:
            self.probe("precrash_nothing_to_interrupt")
            return True
        k = pool[min(len(pool) - 1, int(frac * len(pool)))][0]
        status, info = run_op(world, lambda: self.call(sp_, dp_, o, dry_run=False),
                              FaultPlan([{"step": k, "kind": "crash"}]), timeout=50.0)
        if status != "crash":
            raise RuntimeError(f"pre-crash run did not die at step {k}: {status}")
        world.clock_ms = max(world.clock_ms, info.get("clock_ms", 0))
        world.new_incarnation("after-crash")
        self.probe("precrash")
        self.res["stats"]["faults"]["crash"] = self.res["stats"]["faults"].get("crash", 0) + 1
        with world.observing():
            if snapshot(sp_, mtimes=True) != src0:
                self.v("C13", "C13:source-changed", "a sync that died half-way changed the source project: "
                       f"{self.sdiff(src0, snapshot(sp_, mtimes=True))}", "C13:source-changed:by-crashed-sync")
                return False
            md = project_model(dp_)
        if any(j["sp_status"] != "ok" for j in md["jobs"].values()):
            self.probe("precrash_left_job_without_statepoint")
            return False
        if any(r.endswith("~") for r in snapshot(dp_)):
            self.probe("precrash_left_backup_file")
        return True

    def second_round(self, sp_, dp_, o):
        ms, md = project_model(sp_), project_model(dp_)
        target = None
        for jid in sorted(set(ms["jobs"]) & set(md["jobs"])):
            for rel in sorted(ms["jobs"][jid]["files"]):
                f, g = ms["jobs"][jid]["files"][rel], md["jobs"][jid]["files"].get(rel)
                if rel == DOC_FILE or g is None or f[0] != g[0] or not f[0] or ("/" in rel and not o["recursive"]):
                    continue
                base = rel.rsplit("/", 1)[-1]
                pats = ([o["exclude"]] if isinstance(o["exclude"], str) else list(o["exclude"] or []))
                if any(sync_ref.excluded(part, pats) for part in rel.split("/")):
                    continue
                target = (jid, rel, f)
                break
            if target:
                break
        if target is None:
            return
        jid, rel, f = target
        if self.sc["entry"] in ("Job.sync", "sync_jobs") and jid != self.sel_id(self.sc["pair"]):
            return
        if o["selection"] is not None and self.sc["entry"] in ("Project.sync", "sync_projects") and \
                jid not in {self.sel_id(k) for k in o["selection"]}:
            return
        full = os.path.join(sp_, "workspace", jid, rel)
        with self.world.observing():
            if os.path.islink(full):
                return
            st = O.stat(full)
            new = bytes((b ^ 1) for b in f[0])   # same length, every byte different
            with O.io_open(full, "wb") as fh:
                fh.write(new)
            O.utime(full, ns=(st.st_mtime_ns, st.st_mtime_ns))
        self.probe("second_round_in_place_change")
        ms2, md2 = project_model(sp_), project_model(dp_)
        exp, conflicts = self.expected(ms2, md2)
        want = sorted({c[0] for c in conflicts})
        exc = self.call(sp_, dp_, o)
        got = type(exc).__name__ if exc is not None else None
        after = project_model(dp_)
        data = after["jobs"][jid]["files"].get(rel, (None,))[0]
        changed_dst = data == new
        if want == ["FileSyncConflict"] and got is None and not changed_dst:
            self.v("C15", "C15:deep-not-honoured", f"second sync in the same process: {jid[:8]}/{rel} was rewritten "
                   f"in the source with the same size and mtime; deep=True did not raise FileSyncConflict",
                   "C15:deep-not-honoured:after-in-place-change")
        elif not want and got is None:
            e = exp["jobs"][jid]["files"].get(rel, (None,))[0]
            if e != data:
                self.v("C15", "C15:deep-not-honoured", f"second sync in the same process: {jid[:8]}/{rel} was "
                       f"rewritten in the source with the same size and mtime; deep=True with strategy "
                       f"{o['strategy']} left the destination at {str(data)[:24]!r}, the reference expects "
                       f"{str(e)[:24]!r}", "C15:deep-not-honoured:after-in-place-change")

    def dry_kind(self, a, b):
        added = [r for r in b if r not in a]
        changed = [r for r in b if r in a and a[r][:2] != b[r][:2]]
        if any(r.endswith(DOC_FILE) or r.endswith(PDOC_FILE) for r in changed + added):
            return "document-written"
        if added and all(b[r][0] == "d" for r in added):
            return "directories-created"
        if added:
            return "files-created"
        if changed:
            return "files-changed"
        return "mtime-or-removal"

    def sdiff(self, a, b):
        out = []
        for r in sorted(set(a) | set(b)):
            if r not in a:
                out.append("+" + r)
            elif r not in b:
                out.append("-" + r)
            elif a[r][:2] != b[r][:2]:
                out.append("~" + r)
            elif len(a[r]) > 2 and len(b[r]) > 2 and a[r][2] != b[r][2]:
                out.append("t" + r)
            if len(out) >= 6:
                break
        return out

    def other_exception(self, exc, got, snap_d0, snap_d1, md, ma):
        """An exception class the properties do not speak about (e.g. TypeError on a mapping-vs-scalar
        document conflict): documents must still be rolled back."""
        self.probe("other_exception_" + got)
        exp = getattr(self, "_exp", None)
        for jid, j in md["jobs"].items():
            merged = exp["jobs"].get(jid, j)["doc"] if exp else j["doc"]
            # documents handled before the abort may be completely merged; the one that raised must be
            # rolled back; nothing in between
            if jid in ma["jobs"] and not same(ma["jobs"][jid]["doc"], j["doc"]) and \
                    not same(ma["jobs"][jid]["doc"], merged):
                self.v("C14", "C14:document-not-rolled-back",
                       f"the sync raised {got} and left document of {jid[:8]} as {ma['jobs'][jid]['doc']}, "
                       f"before: {j['doc']}", "C14:document-not-rolled-back-after-" + got)

    def doc_ok_partial(self, before, after):
        return False

    def check_aborted(self, exc, got, ms, md, ma, exp):
        """The sync raised a conflict the reference also finds: per-item invariants only."""
        self.probe("aborted_" + got)
        if got == "FileSyncConflict":
            fn = getattr(exc, "filename", None)
        # (a) no file holds anything but its old content or the source's content
        for jid, ja in ma["jobs"].items():
            jb = md["jobs"].get(jid, {"files": {}, "doc": {}})
            js = ms["jobs"].get(jid, {"files": {}, "doc": {}})
            for rel, (data, _) in ja["files"].items():
                if rel == DOC_FILE and self.sc["opts"]["doc_sync"] != "COPY":
                    continue
                olds = [jb["files"][rel][0]] if rel in jb["files"] else []
                news = [js["files"][rel][0]] if rel in js["files"] else []
                if data not in olds + news:
                    self.v("C14", "C14:file-garbled-after-conflict", f"{jid[:8]}/{rel} holds neither its old nor "
                           f"the source content after {got}")
                # a differing file with no strategy is never overwritten
                if rel in jb["files"] and rel in js["files"] and self.sc["opts"]["strategy"] is None \
                        and data != jb["files"][rel][0]:
                    self.v("C14", "C14:conflicting-file-overwritten-without-strategy",
                           f"{jid[:8]}/{rel} was overwritten although no strategy was given ({got} raised)")
            for rel in jb["files"]:
                if rel not in ja["files"]:
                    self.v("C13", "C13:destination-file-removed", f"{jid[:8]}/{rel} disappeared")
        # (b) documents: pre-sync content, or the complete merge (for documents handled before the abort)
        docs = [("project", md["doc"], ma["doc"], exp["doc"])]
        for jid, jb in md["jobs"].items():
            if jid in ma["jobs"]:
                docs.append((jid[:8], jb["doc"], ma["jobs"][jid]["doc"], exp["jobs"].get(jid, jb)["doc"]))
        if self.sc["opts"]["doc_sync"] == "COPY":
            docs = []  # documents are ordinary files under COPY; handled by (a)
        for name, before, after, merged in docs:
            if not (same(after, before) or same(after, merged)):
                self.v("C14", "C14:document-not-rolled-back",
                       f"after {got} the {name} document is {after}; before the sync it was {before} "
                       f"(complete merge would be {merged})", "C14:document-not-rolled-back-after-" + got)

    def compare(self, ms, md, ma, exp):
        """Exact comparison of the destination with the reference result; every difference is attributed
        to the property that speaks about it."""
        sc = self.sc
        o = sc["opts"]
        patterns = ([o["exclude"]] if isinstance(o["exclude"], str) else list(o["exclude"])) if o["exclude"] else []
        sel = None
        if o["selection"] is not None and sc["entry"] in ("Project.sync", "sync_projects"):
            sel = {self.sel_id(k) for k in o["selection"]}
        self.compare_doc("project", ms["doc"], md["doc"], ma["doc"], exp["doc"])
        for jid in sorted(set(exp["jobs"]) | set(ma["jobs"])):
            je, ja = exp["jobs"].get(jid), ma["jobs"].get(jid)
            jb, js = md["jobs"].get(jid), ms["jobs"].get(jid)
            selected = sel is None or jid in sel
            if je is None:
                self.v("C15" if not selected else "C13", "C15:unselected-job-created" if not selected
                       else "C13:unexpected-job", f"job {jid[:8]} appeared in the destination")
                continue
            if ja is None:
                self.v("C13", "C13:selected-job-missing", f"source job {jid[:8]} is not in the destination")
                continue
            if ja["sp_status"] != "ok" or not same(ja["sp"], je["sp"]):
                self.v("C13", "C13:statepoint-differs", f"job {jid[:8]} state point {ja['sp']} vs {je['sp']}")
            if o["doc_sync"] != "COPY":
                self.compare_doc(jid[:8], (js or {}).get("doc", {}), (jb or {}).get("doc", {}), ja["doc"], je["doc"],
                                 cloned=jb is None)
            fe = {r: f[0] for r, f in je["files"].items() if r != DOC_FILE or o["doc_sync"] == "COPY"}
            fa = {r: f[0] for r, f in ja["files"].items() if r != DOC_FILE or o["doc_sync"] == "COPY"}
            for rel in sorted(set(fe) | set(fa)):
                if fe.get(rel) == fa.get(rel):
                    continue
                base = rel.rsplit("/", 1)[-1]
                in_src = js is not None and rel in js["files"]
                in_dst = jb is not None and rel in jb["files"]
                what = (f"{jid[:8]}/{rel}: expected "
                        f"{'absent' if rel not in fe else fe[rel][:20]!r}, found "
                        f"{'absent' if rel not in fa else fa[rel][:20]!r}")
                if not selected:
                    self.v("C15", "C15:unselected-job-modified", what)
                elif rel in fe and rel not in fa and in_src and not in_dst:
                    # the reference says this source file must have been copied (its own name is not
                    # excluded, whatever its parent directories are called)
                    self.v("C13", "C13:source-file-not-copied", what + (f" (exclude {patterns})" if patterns else ""),
                           "C13:source-file-not-copied:" + ("nested" if "/" in rel else "top"))
                elif sync_ref.excluded(base, patterns) or any(
                        sync_ref.excluded(part, patterns) for part in rel.split("/")[:-1]):
                    # an excluded name was created or modified in the destination
                    kind = "in-cloned-job" if jb is None else "in-copied-directory" if not in_dst else "existing"
                    self.v("C15", "C15:excluded-file-touched", what + f" (exclude {patterns})",
                           "C15:excluded-file-created-" + kind)
                elif in_src and in_dst:
                    sf, df = js["files"][rel], jb["files"][rel]
                    if o["deep"] and not sync_ref.detected(sf, df, False):
                        self.v("C15", "C15:deep-not-honoured",
                               what + " (content differs, size and mtime equal, deep=True)",
                               "C15:deep-not-honoured:" + ("project-level" if sc["entry"] in
                                                           ("Project.sync", "sync_projects") else "job-level"))
                        # ... and the strategy's verdict was not followed either (C14 quantifies over
                        # conflicts with equal size and equal mtime as well)
                        self.v("C14", "C14:file-verdict-not-followed",
                               what + f" (strategy {o['strategy']}, deep=True, equal size and mtime)",
                               "C14:file-verdict-not-followed:deep-equal-size-mtime")
                    else:
                        self.v("C14", "C14:file-verdict-not-followed",
                               what + f" (strategy {o['strategy']}, src mtime {sf[1]}, dst mtime {df[1]})",
                               "C14:file-verdict-not-followed:" + str(o["strategy"] if not
                                                                      isinstance(o["strategy"], list) else "custom"))
                elif in_src:
                    self.v("C13", "C13:source-file-not-copied", what, "C13:source-file-not-copied:"
                           + ("nested" if "/" in rel else "top"))
                elif in_dst:
                    self.v("C13", "C13:destination-only-file-changed", what)
                else:
                    self.v("C13", "C13:unexpected-file", what)

    def compare_doc(self, name, src, before, after, expected, cloned=False):
        if same(after, expected):
            return
        # attribute the first differing dotted key
        def flat(d, pre=""):
            out = {}
            for k, v in (d or {}).items():
                if isinstance(v, dict) and v:
                    out.update(flat(v, pre + k + "."))
                else:
                    out[pre + k] = v
            return out
        fs, fb, fa, fe = flat(src), flat(before), flat(after), flat(expected)
        for k in sorted(set(fa) | set(fe)):
            if k in fa and k in fe and same(fa[k], fe[k]):
                continue
            what = (f"{name} document key {k}: expected {fe.get(k, '<absent>')!r}, found "
                    f"{fa.get(k, '<absent>')!r} (source {fs.get(k, '<absent>')!r}, before {fb.get(k, '<absent>')!r})")
            if k in fs and k in fb:
                self.v("C14", "C14:document-key-verdict-not-followed", what,
                       "C14:document-key-verdict-not-followed:depth" + str(k.count(".") + 1))
            elif k in fb:
                self.v("C13", "C13:destination-only-key-changed", what)
            else:
                self.v("C13", "C13:source-key-not-merged", what)
            return
        self.v("C13", "C13:document-differs", f"{name} document {after} vs expected {expected}")

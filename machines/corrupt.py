"""Engine `corrupt` (C09): state point corruption is detected, never accepted, repairable.

Fault enumeration over damage at rest.  A scenario is a project (1-5 jobs with
documents and data files, persistent cache absent / complete / partial).  The
damage space of its state point files - truncation at every byte offset, one
byte replaced at every offset x byte class, deletion, replacement by other valid
JSON, swap of two jobs' files, renaming a job directory - is enumerated
(thorough: all singles + sampled pairs/triples; quick: a seeded sample).  Each
damaged workspace is classified by an independent canonical hash and then given
to fresh sessions: check(), open-by-id, repair() under a permuted listing order.
"""

import json
import os

from machines.common import (CACHE_REL, DOC_FILE, HEX32, SP_FILE, cid, gen_sp, norm, quiet, raw_project,
                             read_cache, read_json, same, viol, write_payload)
from machines.lifecycle import Mismatch
from simcore.driver import EngineBase, generic_shrink
from simcore.sched import install_locks, install_pools
from simcore.world import O, SimWorld, derive, restore, snapshot

BYTE_CLASSES = {"digit": b"7", "letter": b"q", "quote": b'"', "brace": b"}", "bracket": b"]",
                "space": b" ", "nul": b"\x00", "high": b"\xc3", "comma": b","}


def floatify(v):
    if isinstance(v, bool):
        return v
    if isinstance(v, int):
        return float(v)
    if isinstance(v, dict):
        return {k: floatify(x) for k, x in v.items()}
    if isinstance(v, list):
        return [floatify(x) for x in v]
    return v


class Engine(EngineBase):
    def budget(self, tier):
        return (850, 55.0) if tier == "quick" else (2000, 900.0)

    def run_timeout(self, tier):
        # thorough enumerates every single damage of a scenario (thousands of damaged workspaces per run)
        return 60.0 if tier == "quick" else 900.0

    def rule(self):
        return ("seeded scenario (1-5 jobs of assorted state point shapes, some bare, cache absent/complete/partial) x "
                "damage sets of <= 3 jobs drawn from {truncate at offset, replace byte at offset by class, "
                "delete, replace by other valid JSON, swap two files, rename directory}; thorough enumerates "
                "every single damage of the scenario, quick samples. evaluations = damaged workspaces checked. "
                "distinct = (damage kind, byte class, independent classification, cache state, recoverable?, "
                "outcome of check/open/repair); non-trivial = the damage changed the JSON value or broke the file")

    def generate(self, rng, tier):
        knobs = {"listing": rng.choice(["shuffle", "shuffle", "sorted", "reverse"]), "chunk": "none",
                 "clock": "inc", "miss_threshold": rng.choice([None, None, None, 1, 2])}
        n = rng.randrange(1, 6)
        sps = []
        while len(sps) < n:
            r = rng.random()
            # the empty state point is a legal job too (and the only falsy one)
            sp = {} if r < 0.08 else gen_sp(rng, "abcd", 2) if r < 0.64 else {"k": rng.randrange(4)}
            if all(not same(sp, s) for s in sps):
                sps.append(sp)
        cache = rng.choice(["absent", "complete", "partial"])
        # some jobs are bare: nothing but the state point file in their directory
        bare = [rng.random() < 0.25 for _ in sps]
        return {"knobs": knobs, "sps": sps, "bare": bare, "cache": cache, "cache_upto": rng.randrange(0, n + 1),
                "ndamage": 40 if tier == "quick" else 0, "multi": 12 if tier == "quick" else 60}

    def shrink(self, scenario):
        if scenario.get("only") is not None:
            # drop jobs not involved in the damage
            used = {d[1] for d in scenario["only"]} | {d[2] for d in scenario["only"] if d[0] == "swap"}
            for i in range(len(scenario["sps"]) - 1, -1, -1):
                if i in used:
                    continue
                c = dict(scenario)
                c["sps"] = scenario["sps"][:i] + scenario["sps"][i + 1:]
                if scenario.get("bare"):
                    c["bare"] = scenario["bare"][:i] + scenario["bare"][i + 1:]
                c["only"] = [[d[0], d[1] - (d[1] > i)] + ([d[2] - (d[2] > i)] if d[0] == "swap" else list(d[2:]))
                             for d in scenario["only"]]
                if c["cache_upto"] > i:
                    c["cache_upto"] -= 1
                yield c
            if len(scenario["only"]) > 1:
                for i in range(len(scenario["only"])):
                    c = dict(scenario)
                    c["only"] = scenario["only"][:i] + scenario["only"][i + 1:]
                    yield c
        if scenario["knobs"]["listing"] != "sorted":
            c = dict(scenario)
            c["knobs"] = dict(scenario["knobs"], listing="sorted")
            yield c

    def sample(self, scenario, result):
        return {"sps": scenario["sps"], "cache": scenario["cache"], "damages": result.get("damage_samples"),
                "n_damage_sets": result.get("stats", {}).get("variants")}

    # ------------------------------------------------------------------
    def execute(self, sc, ctx):
        import signac

        install_locks()
        install_pools(2)
        res = {"violations": [], "keys": [], "stats": {"faults": {}, "probes": {}, "variants": 0},
               "nontrivial": False}
        root = os.path.join(ctx.scratch, "w")
        with SimWorld(root, seed=sc.get("seed", 0), knobs=sc["knobs"]) as world:
            try:
                self._run(sc, world, res, signac)
            except Mismatch as m:
                res["violations"].append(viol(m.prop, m.vclass, m.msg, m.fp, getattr(m, "narrow", None)))
            res["digest"] = world.digest()
            res["stats"]["steps"] = world.seq
            res["stats"]["sim_ms"] = world.clock_ms - 1_000_000_000_000
        return res

    def _run(self, sc, world, res, signac):
        pp = world.p("proj")
        project = signac.init_project(pp)
        if sc["knobs"].get("miss_threshold") is not None:
            # a low cache-miss warning threshold (documented configuration key): the branch taken
            # after many misses is reached with a handful of jobs
            with world.observing():
                with O.io_open(os.path.join(pp, ".signac", "config"), "ab") as f:
                    f.write(b"statepoint_cache_miss_warning_threshold = %d\n" % sc["knobs"]["miss_threshold"])
            project = signac.Project(pp)
        sps = [norm(s) for s in sc["sps"]]
        ids = [cid(s) for s in sps]
        for i, sp in enumerate(sps):
            job = project.open_job(sp).init()
            if not (sc.get("bare") or [False] * len(sps))[i]:
                job.doc.reset({"lin": i})
                write_payload(job.path, {"f1": f"DATA:{i}:f1", "sub/g": f"DATA:{i}:g"})
            if sc["cache"] == "partial" and i + 1 == sc["cache_upto"]:
                project.update_cache()
        if sc["cache"] == "complete":
            project.update_cache()
        elif sc["cache"] == "partial" and sc["cache_upto"] == 0:
            pass
        st, cached = read_cache(pp)
        cached = cached if st == "ok" else {}
        pre = snapshot(world.root, mtimes=True)
        self._pre = pre
        files = []
        for jid in ids:
            with O.io_open(os.path.join(pp, "workspace", jid, SP_FILE), "rb") as f:
                files.append(f.read())
        # ---- the damage space -------------------------------------------------
        rng = derive(sc.get("seed", 0), "fault")
        if sc.get("only") is not None:
            sets = [sc["only"]]
        else:
            singles = self._singles(files, sps, ids)
            if sc.get("ndamage"):
                k = min(sc["ndamage"], len(singles))
                # always keep the structural damages, sample the byte-level ones
                structural = [d for d in singles if d[0] not in ("trunc", "byte")]
                bytelevel = [d for d in singles if d[0] in ("trunc", "byte")]
                pick = structural + rng.sample(bytelevel, min(len(bytelevel), max(0, k - len(structural))))
            else:
                pick = singles
            sets = [[d] for d in pick]
            if len(sps) >= 2:
                for _ in range(sc.get("multi", 0)):
                    m = rng.randrange(2, min(3, len(sps)) + 1)
                    js = rng.sample(range(len(sps)), m)
                    ds = []
                    for j in js:
                        cands = [d for d in singles if d[1] == j and d[0] != "swap"]
                        ds.append(rng.choice(cands))
                    sets.append(ds)
        res["damage_samples"] = sets[:3] + sets[-2:]
        for dset in sets:
            restore(world.root, pre)
            try:
                self._one(sc, world, res, signac, pp, sps, ids, cached, dset)
            except Mismatch as m:
                m.narrow = {"only": dset}
                raise
            res["stats"]["variants"] += 1

    def _singles(self, files, sps, ids):
        out = []
        n = len(files)
        for j, data in enumerate(files):
            for off in range(0, len(data)):
                out.append(["trunc", j, off])
            for off in range(len(data)):
                for cls, b in BYTE_CLASSES.items():
                    if data[off:off + 1] != b:
                        out.append(["byte", j, off, cls])
            out.append(["delete", j])
            for kind in ("empty_obj", "list", "number", "floatify", "other_job", "extra_key", "reorder"):
                if kind == "other_job" and n < 2:
                    continue
                out.append(["json", j, kind])
            out.append(["rename", j, "unused"])
            out.append(["rename", j, "removed_cached"])
            for k in range(j + 1, n):
                out.append(["swap", j, k])
        return out

    # ------------------------------------------------------------------
    @quiet
    def _apply(self, pp, sps, ids, d):
        """Apply one damage; returns the directory names it touched."""
        ws = os.path.join(pp, "workspace")
        kind, j = d[0], d[1]
        fn = os.path.join(ws, ids[j], SP_FILE)
        # in a multi-damage set an earlier damage may have removed / renamed this job: skip
        if not os.path.isfile(fn):
            return
        if kind == "swap" and not os.path.isfile(os.path.join(ws, ids[d[2]], SP_FILE)):
            return
        if kind == "trunc":
            with O.io_open(fn, "rb") as f:
                data = f.read()
            with O.io_open(fn, "wb") as f:
                f.write(data[: d[2]])
        elif kind == "byte":
            with O.io_open(fn, "rb") as f:
                data = bytearray(f.read())
            data[d[2]: d[2] + 1] = BYTE_CLASSES[d[3]]
            with O.io_open(fn, "wb") as f:
                f.write(bytes(data))
        elif kind == "delete":
            O.unlink(fn)
        elif kind == "json":
            sp = sps[j]
            v = {"empty_obj": {}, "list": [], "number": 1, "floatify": floatify(sp),
                 "other_job": sps[(j + 1) % len(sps)], "extra_key": {**sp, "zz": 0},
                 "reorder": dict(reversed(list(sp.items())))}[d[2]]
            with O.io_open(fn, "wb") as f:
                f.write(json.dumps(v).encode())
        elif kind == "swap":
            k = d[2]
            fk = os.path.join(ws, ids[k], SP_FILE)
            with O.io_open(fn, "rb") as f:
                a = f.read()
            with O.io_open(fk, "rb") as f:
                b = f.read()
            with O.io_open(fn, "wb") as f:
                f.write(b)
            with O.io_open(fk, "wb") as f:
                f.write(a)
        elif kind == "rename":
            if d[2] == "unused":
                new = cid({"unused": j})
                O.rename(os.path.join(ws, ids[j]), os.path.join(ws, new))
            else:
                # the directory takes the id of another job that was removed (its id may be cached)
                k = (j + 1) % len(ids)
                if k == j:
                    new = cid({"unused": j})
                    O.rename(os.path.join(ws, ids[j]), os.path.join(ws, new))
                else:
                    import shutil
                    shutil.rmtree(os.path.join(ws, ids[k]), ignore_errors=True)
                    O.rename(os.path.join(ws, ids[j]), os.path.join(ws, ids[k]))

    @quiet
    def _classify(self, pp):
        """Independent classification of every job directory: name -> (damaged?, parsed value or None)."""
        out = {}
        for name, rj in raw_project(pp).items():
            st, v = rj["sp"]
            ok = False
            if st == "ok" and isinstance(v, dict):
                try:
                    ok = cid(v) == name
                except (TypeError, ValueError):
                    ok = False
            out[name] = (not ok, v if st == "ok" else None, st)
        return out

    @quiet
    def _data_files(self, pp):
        out = []
        for name, rj in raw_project(pp).items():
            if not rj["files"] and rj["doc"][0] == "absent":
                # a directory that holds no document and no data file has nothing repair() could change
                # (a misnamed directory may legitimately be renamed onto such an empty one)
                continue
            out.append(tuple(sorted((r, e) for r, e in rj["files"].items()))
                       + (("__doc__", rj["doc"][0], json.dumps(rj["doc"][1], sort_keys=True)
                           if rj["doc"][0] == "ok" else None),))
        return sorted(out, key=repr)

    @quiet
    def _sp_files(self, pp):
        """Raw bytes of every state point file (or None) by directory name."""
        out = {}
        ws = os.path.join(pp, "workspace")
        for name in sorted(O.listdir(ws)):
            f = os.path.join(ws, name, SP_FILE)
            try:
                with O.io_open(f, "rb") as fh:
                    out[name] = fh.read()
            except OSError:
                out[name] = None
        return out

    def _one(self, sc, world, res, signac, pp, sps, ids, cached, dset):
        from signac.errors import JobsCorruptedError

        P = "C09"
        for d in dset:
            self._apply(pp, sps, ids, d)
        cls = self._classify(pp)
        damaged = {n for n, (bad, v, st) in cls.items() if bad}
        label = f"damage {dset} (cache {sc['cache']})"
        kinds = "+".join(d[0] + (":" + str(d[3]) if d[0] == "byte" else ":" + str(d[2]) if d[0] in ("json", "rename") else "")
                         for d in dset)
        if damaged:
            res["nontrivial"] = True
        for d in dset:
            res["stats"]["faults"][d[0]] = res["stats"]["faults"].get(d[0], 0) + 1
        # (1) check() in a fresh session
        proj = signac.Project(pp)
        try:
            proj.check()
            reported = None
        except JobsCorruptedError as e:
            reported = list(e.job_ids)
        except Exception as e:  # noqa: BLE001
            raise Mismatch(P, "C09:check:raised-other",
                           f"{label}: check() raised {type(e).__name__}: {str(e)[:160]}",
                           f"C09:check:raised-{type(e).__name__}")
        if reported is None:
            if damaged:
                raise Mismatch(P, "C09:check:damage-not-detected",
                               f"{label}: check() passed but {sorted(damaged)} are damaged "
                               f"({[cls[n][2] for n in sorted(damaged)]}, values "
                               f"{[str(cls[n][1])[:60] for n in sorted(damaged)]})",
                               "C09:check:damage-not-detected:" + kinds.split("+")[0].split(":")[0])
        else:
            if len(reported) != len(set(reported)) or set(reported) != damaged:
                raise Mismatch(P, "C09:check:wrong-job-set",
                               f"{label}: check() reported {sorted(reported)} but the damaged jobs are "
                               f"{sorted(damaged)}", "C09:check:wrong-job-set")
        # (2) opening a damaged job by id never yields a wrong state point
        proj = signac.Project(pp)
        self._data_files_pre = self._data_files(pp)
        sp_before = self._sp_files(pp)
        opened = {}
        for n in sorted(damaged):
            for route in ("statepoint", "cached_statepoint", "statepoint-again"):
                # "-again": the same handle is asked a second time after its first answer (a refusal must
                # not leave an unvalidated state point behind in the handle)
                try:
                    job = proj.open_job(id=n)
                    if route == "statepoint-again":
                        try:
                            job.statepoint()
                        except Exception:  # noqa: BLE001
                            pass
                        v = job.sp()
                    else:
                        v = job.statepoint() if route == "statepoint" else dict(job.cached_statepoint)
                except Exception as e:  # noqa: BLE001 - raising is an allowed outcome
                    opened[(n, route)] = type(e).__name__
                    continue
                try:
                    good = cid(v) == n
                except (TypeError, ValueError):
                    good = False
                opened[(n, route)] = "value"
                if not good:
                    raise Mismatch(P, "C09:open:accepted-wrong-statepoint",
                                   f"{label}: open_job(id={n[:8]}).{route} returned {str(v)[:100]} whose id is "
                                   f"not {n[:8]}", f"C09:open:{route}:accepted-wrong-statepoint")
        if self._data_files(pp) != self._data_files_pre or self._sp_files(pp) != sp_before:
            raise Mismatch(P, "C09:open:changed-disk",
                           f"{label}: merely opening the damaged jobs by id changed files in the workspace")
        # (3) repair() under the permuted listing order
        recoverable = set()
        expect_name = {}
        taken = set(cls)
        for n in sorted(damaged):
            bad, v, st = cls[n]
            if n in cached:
                recoverable.add(n)
                expect_name[n] = n
            elif st == "ok" and isinstance(v, dict):
                try:
                    right = cid(v)
                except (TypeError, ValueError):
                    continue
                if right not in taken:
                    recoverable.add(n)
                    expect_name[n] = right
        # two misnamed directories claiming the same free name: only one can get it
        claimed = {}
        for n in sorted(recoverable):
            claimed.setdefault(expect_name[n], []).append(n)
        for name, who in claimed.items():
            if len(who) > 1:
                for n in who:
                    recoverable.discard(n)
        before_files = self._data_files(pp)
        proj = signac.Project(pp)
        try:
            proj.repair()
            rep = None
        except JobsCorruptedError as e:
            rep = sorted(e.job_ids)
        except Exception as e:  # noqa: BLE001
            raise Mismatch(P, "C09:repair:raised-other",
                           f"{label}: repair() raised {type(e).__name__}: {str(e)[:160]}",
                           f"C09:repair:raised-{type(e).__name__}")
        after = self._classify(pp)
        for n in sorted(recoverable):
            name = expect_name[n]
            if name not in after or after[name][0]:
                first_bad = [x for x in sorted(damaged) if x not in recoverable]
                raise Mismatch(P, "C09:repair:recoverable-job-not-repaired",
                               f"{label}: job {n[:8]} was recoverable "
                               f"({'cached' if n in cached else 'intact file, right name free'}) but after "
                               f"repair() (raised {rep}) {name[:8]} is "
                               f"{'missing' if name not in after else 'still invalid'}; unrecoverable jobs in "
                               f"this workspace: {[x[:8] for x in first_bad]}",
                               "C09:repair:recoverable-job-not-repaired"
                               + (":after-unrecoverable-job" if first_bad else ""))
        if damaged and damaged <= recoverable:
            if rep is not None:
                raise Mismatch(P, "C09:repair:raised-though-all-recoverable",
                               f"{label}: repair() raised JobsCorruptedError({rep}) although every damaged job "
                               f"was recoverable")
            try:
                signac.Project(pp).check()
            except JobsCorruptedError as e:
                raise Mismatch(P, "C09:repair:check-fails-after-repair",
                               f"{label}: check() still reports {e.job_ids} after repair()")
        if self._data_files(pp) != before_files:
            raise Mismatch(P, "C09:repair:changed-data-files",
                           f"{label}: repair() changed documents or data files")
        # (3b) the session that repaired (or failed to) goes on to update the cache: what it read without
        #      validation while repairing must not be laundered into the cache file
        if damaged and (len(res["keys"]) % 2 == 0 or sc.get("only") is not None):
            try:
                proj.update_cache()
                how = "cache-updated"
            except JobsCorruptedError:
                how = "refused"
            except Exception as e:  # noqa: BLE001
                raise Mismatch(P, "C09:update_cache:raised-other",
                               f"{label}: update_cache() after repair() raised {type(e).__name__}: {str(e)[:160]}",
                               f"C09:update_cache:raised-{type(e).__name__}")
            fresh = signac.Project(pp)
            for n in sorted(damaged):
                for route in ("statepoint", "cached_statepoint"):
                    try:
                        job = fresh.open_job(id=n)
                        v = job.statepoint() if route == "statepoint" else dict(job.cached_statepoint)
                    except Exception:  # noqa: BLE001 - raising is an allowed outcome
                        continue
                    try:
                        good = cid(v) == n
                    except (TypeError, ValueError):
                        good = False
                    if not good:
                        raise Mismatch(P, "C09:open:accepted-wrong-statepoint-after-repair-and-update_cache",
                                       f"{label}: repair() (raised {rep}) and then update_cache() ({how}) in the same "
                                       f"session; a fresh session's open_job(id={n[:8]}).{route} returned "
                                       f"{str(v)[:100]} whose id is not {n[:8]}",
                                       "C09:open:accepted-wrong-statepoint-after-repair-and-update_cache")
            pr = res["stats"]["probes"]
            pr["update_cache_after_repair_" + how] = pr.get("update_cache_after_repair_" + how, 0) + 1
        # (4) a cache update between the damage and the fresh session must not launder the damage:
        #     update_cache() either refuses (JobsCorruptedError) or leaves a cache from which
        #     open-by-id still never yields a state point whose hash differs from the id
        laundered = "skip"
        if damaged and (len(res["keys"]) % 3 == 0 or sc.get("only") is not None):
            from simcore.world import restore as _restore
            _restore(world.root, self._pre)
            for d in dset:
                self._apply(pp, sps, ids, d)
            try:
                signac.Project(pp).update_cache()
                laundered = "cache-updated"
            except JobsCorruptedError:
                laundered = "refused"
            except Exception as e:  # noqa: BLE001
                raise Mismatch(P, "C09:update_cache:raised-other",
                               f"{label}: update_cache() on the damaged workspace raised {type(e).__name__}: "
                               f"{str(e)[:160]}", f"C09:update_cache:raised-{type(e).__name__}")
            proj = signac.Project(pp)
            for n in sorted(damaged):
                for route in ("statepoint", "cached_statepoint"):
                    try:
                        job = proj.open_job(id=n)
                        v = job.statepoint() if route == "statepoint" else dict(job.cached_statepoint)
                    except Exception:  # noqa: BLE001 - raising is an allowed outcome
                        continue
                    try:
                        good = cid(v) == n
                    except (TypeError, ValueError):
                        good = False
                    if not good:
                        raise Mismatch(P, "C09:open:accepted-wrong-statepoint-after-update_cache",
                                       f"{label}: after update_cache() ({laundered}) on the damaged workspace a "
                                       f"fresh session's open_job(id={n[:8]}).{route} returned {str(v)[:100]} "
                                       f"whose id is not {n[:8]}",
                                       "C09:open:accepted-wrong-statepoint-after-update_cache")
            self_probe = res["stats"]["probes"]
            self_probe["update_cache_after_damage_" + laundered] = \
                self_probe.get("update_cache_after_damage_" + laundered, 0) + 1
        res["keys"].append(f"{kinds}|{sorted(c[2] for c in cls.values() if c[0])}|{sc['cache']}|"
                           f"rec={len(recoverable)}/{len(damaged)}|chk={'none' if reported is None else len(reported)}|"
                           f"open={sorted(set(opened.values()))}|rep={'ok' if rep is None else len(rep)}")

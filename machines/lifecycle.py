"""Engine `lifecycle` (C02, C03, C04): histories of job operations against a model.

One actor, two projects, real signac on SimFS.  A seeded history of public
operations (open / init / document and file edits / clear / reset / remove /
state point edits / move / clone / cache updates / restart / handle copies /
decoy entries) is executed step by step.  After every step the disk (raw walk),
a fresh session (fresh handles, check()) and every live handle are compared with
a plain in-memory model; the call log decides "wrote nothing" questions.

Fault dimension: session restarts anywhere, directory-listing order, state of
the persistent cache (absent / fresh / stale), handle provenance.
"""

import copy
import os
import pickle

from machines.common import (CACHE_REL, DOC_FILE, HEX32, SCALARS, SP_FILE, check_project, cid, fresh_view,
                             gen_sp, gen_value, leftovers, norm, quiet, raw_project, read_json, raw_ws_entries,
                             same, viol)
from simcore.driver import EngineBase, generic_shrink
from simcore.sched import install_locks, install_pools
from simcore.world import MUTATING, O, SimWorld, snapshot

KEYS = ["a", "b", "c"]
VALS = [0, 1, 2]
# three values per scenario; the pools differ in what they contain (null, strings, booleans, floats) but
# none holds two values that are equal in Python and different as JSON (that is the dependency's
# open assignment finding, injected separately)
POOLS = [[0, 1, 2], [0, 1, 2], [None, "x", 1], [False, "", 2], [1.5, "a b", None], [0, None, "0"]]
FILES = ["f1", "f2", "sub/g", ".h", "sub/.g"]

_FAMILY = {}


def prefix_family():
    """ids of {'k': i}, bucketed so that groups sharing id prefixes of length 1..6 exist."""
    if _FAMILY:
        return _FAMILY
    ids = [(cid({"k": i}), i) for i in range(60000)]
    for L in (3, 4, 5, 6):
        b = {}
        for h, i in ids:
            b.setdefault(h[:L], []).append(i)
        groups = sorted((v for v in b.values() if len(v) >= 2), key=lambda v: (-len(v), v[0]))
        _FAMILY[L] = groups[:400]
    return _FAMILY


class Mismatch(Exception):
    def __init__(self, prop, vclass, msg, fp=None):
        super().__init__(msg)
        self.prop, self.vclass, self.msg, self.fp = prop, vclass, msg, fp or vclass


def small_sp(rng, nested=True):
    sp = {k: rng.choice(VALS) for k in rng.sample(KEYS, rng.randrange(1, 3))}
    r = rng.random()
    if nested and r < 0.15:
        sp["n"] = {"x": rng.choice(VALS)}
    elif nested and r < 0.25:
        sp["l"] = [rng.choice(VALS)]
    return sp


class Engine(EngineBase):
    def budget(self, tier):
        if self.prop == "C02":
            return (2200, 55.0) if tier == "quick" else (60000, 900.0)
        return (2600, 55.0) if tier == "quick" else (90000, 900.0)

    def rule(self):
        return ("seeded operation histories over a small universe (3 keys x 3 values + nested mapping/list "
                "key, 3 file names, 2 projects, handles by state point / id / copy.copy / deepcopy / pickle), "
                "with restarts, listing-order permutation and cache states as the fault dimension; model, raw "
                "disk, fresh session and live handles compared after every step. distinct = abstract end "
                "states (hash of model + handle kinds) and operation 3-grams; non-trivial = at least one "
                "mutating operation succeeded")

    # ------------------------------------------------------------------
    def generate(self, rng, tier):
        global VALS
        saved = VALS
        VALS = rng.choice(POOLS)
        try:
            return self._generate(rng, tier)
        finally:
            VALS = saved

    def _generate(self, rng, tier):
        P = self.prop
        knobs = {"listing": rng.choice(["shuffle", "shuffle", "sorted", "reverse"]),
                 "chunk": rng.choice(["none", "split2"]), "clock": rng.choice(["inc", "coarse"]),
                 "fd_rmtree": rng.random() < 0.5}
        sc = {"knobs": knobs, "focus": P, "observe_handles": rng.choice(["all", "lazy", "lazy"]),
              "proj_spelling": rng.choice(["plain", "plain", "plain", "dotdot", "symlink"])}
        ops = []
        if P == "C02":
            fam = prefix_family()
            init = []
            for _ in range(rng.randrange(0, 3)):
                L = rng.choice([3, 4, 5, 6])
                g = rng.choice(fam[L])
                init += [{"k": i} for i in rng.sample(g, min(len(g), rng.randrange(2, 4)))]
            for _ in range(rng.randrange(1, 7)):
                init.append(gen_sp(rng, "abcd", 2))
            if rng.random() < 0.2:
                init.append({})  # the empty state point is a valid state point
            init = init[:12]
            n = rng.randrange(8, 30)
            for sp in init:
                ops.append(["open", 0, sp, True])
                if rng.random() < 0.8:
                    ops.append(["init", -1])
            mix = ["open", "init", "init", "open_id", "update_cache", "restart", "lookup", "lookup",
                   "drop", "rm_cache", "rm_workspace", "open_gone"]
        else:
            n = rng.randrange(10, 50 if tier == "quick" else 60)
            mix = (["open"] * 5 + ["open_id"] * 2 + ["init"] * 5 + ["doc_set"] * 4 + ["doc_del", "doc_reset"]
                   + ["file_write"] * 3 + ["file_del", "clear", "reset", "remove", "remove"]
                   + ["sp_set"] * 6 + ["sp_del"] * 2 + ["sp_nested"] * 2 + ["sp_assign"] * 2
                   + ["update_sp"] * 2 + ["move"] * 3 + ["clone"] * 3 + ["update_cache", "restart", "restart"]
                   + ["drop", "copy", "copy", "deepcopy", "pickle", "init_project", "rm_cache", "rm_workspace",
                      "open_gone", "open_gone", "buffered_move", "buffered_clone"])
            if rng.random() < (0.03 if tier == "quick" else 0.15):
                mix += ["pickle_fresh"] * 2
            if P == "C03":
                mix += ["decoy", "emptydir"]
            if P == "C04":
                mix += ["sp_set"] * 4 + ["move", "clone", "copy", "copy", "emptydir", "emptydir"]
        for _ in range(n):
            k = rng.choice(mix)
            h = rng.randrange(1000)
            pi = rng.randrange(2) if P != "C02" else 0
            if k == "open":
                sp = small_sp(rng) if P != "C02" else gen_sp(rng, "abcd", 2)
                o = [k, pi, sp, rng.random() < 0.5]
                if P == "C02" and rng.random() < 0.4:
                    o.append(rng.choice(["tuples", "reversed", "synced"]))
                ops.append(o)
            elif k == "open_id":
                ops.append([k, pi, h, rng.choice([32, 32, 32, "min", "min+1"])])
            elif k in ("buffered_move", "buffered_clone"):
                ops.append([k, h, rng.choice("pq"), "bm%d" % rng.randrange(10**6)])
            elif k == "open_gone":
                # the full id of a job that existed earlier (removed / re-keyed / moved away since)
                ops.append([k, pi, h, rng.choice(["doc", "doc", "init", "file", None])])
            elif k in ("init", "clear", "reset", "remove", "move", "clone", "drop", "copy", "deepcopy",
                       "pickle"):
                ops.append([k, h])
            elif k == "doc_set":
                ops.append([k, h, rng.choice("pq"), rng.choice([1, "s", [1, 2], {"z": 0}, "t", 2.5])])
            elif k == "doc_del":
                ops.append([k, h, rng.choice("pq")])
            elif k == "doc_reset":
                ops.append([k, h, {rng.choice("pq"): rng.randrange(5)}])
            elif k == "file_write":
                ops.append([k, h, rng.choice(FILES), "m%d" % rng.randrange(10**6)])
            elif k == "file_del":
                ops.append([k, h, rng.choice(FILES)])
            elif k == "sp_set":
                # now and then a value that equals a pool value in Python but not as JSON (1 / True / 1.0):
                # set in place, that is a different state point and the job must move
                v = rng.choice(VALS) if rng.random() < 0.9 else rng.choice([True, False, 1.0, 0.0, 2.0])
                ops.append([k, h, rng.choice(KEYS), v])
            elif k == "sp_del":
                ops.append([k, h, rng.choice(KEYS + ["n", "l"])])
            elif k == "sp_nested":
                ops.append([k, h, rng.choice(["n.x", "l.append", "l[0]"]), rng.choice(VALS)])
            elif k == "sp_assign":
                sp = small_sp(rng)
                r = rng.random()
                if P != "C04":
                    pass
                elif r < 0.08:
                    sp["n"] = None
                elif r < 0.16:
                    sp[rng.choice(KEYS)] = rng.choice([True, 1.0, 2.0, False])
                ops.append([k, h, sp, rng.choice(["sp", "statepoint"])])
            elif k == "update_sp":
                ops.append([k, h, {rng.choice(KEYS): rng.choice(VALS)}, rng.random() < 0.5])
            elif k in ("update_cache", "init_project", "rm_cache", "lookup", "rm_workspace"):
                ops.append([k, pi])
            elif k == "restart":
                ops.append([k])
            elif k == "decoy":
                ops.append([k, pi, rng.choice(["bak", "hex31", "hex33", "upper", "file", "tilde"]), h])
            elif k == "emptydir":
                ops.append([k, pi, small_sp(rng)])
            elif k == "pickle_fresh":
                ops.append([k, h, rng.choice([["init"], ["doc_set", rng.choice("pq"), rng.randrange(9)],
                                              ["remove"], ["read"],
                                              ["sp_set", rng.choice("abc"), rng.choice([0, 1, 2, "x"])]])])
        if P == "C04" and rng.random() < 0.12:
            # a nested in-place edit that is refused (the destination exists) through a handle that has
            # changed its state point successfully before, followed by the next legitimate edit
            if rng.random() < 0.5:
                a, b, route, v = {"a": 7, "n": {"x": 1}}, {"a": 7, "b": 5, "n": {"x": 2}}, "n.x", 2
            else:
                a, b, route, v = {"a": 8, "l": [1]}, {"a": 8, "b": 5, "l": [1, 2]}, "l.append", 2
            block = [["open", 0, a, False], ["init", -1], ["sp_set", -1, "b", 5], ["open", 0, b, False],
                     ["init", -1], ["sp_nested", -2, route, v], ["sp_set", -2, "c", 3]]
            at = rng.randrange(0, len(ops) + 1)
            ops[at:at] = block
        if P == "C04" and rng.random() < 0.10:
            # a change that is refused because the destination exists and differs from the source only in
            # the TYPE of one value (False / 0, 1 / True, 1 / 1.0): the handle must go back to the old value,
            # not to one that merely compares equal; then the next legitimate edit
            old_v, new_v = rng.choice([(False, 0), (0, False), (1, True), (True, 1), (1, 1.0), (2.0, 2)])
            a, b = {"a": 9, "c": old_v}, {"a": 9, "c": new_v}
            block = [["open", 0, a, False], ["init", -1], ["open", 0, b, False], ["init", -1],
                     ["sp_set", -2, "c", new_v], ["sp_set", -2, "b", 4]]
            at = rng.randrange(0, len(ops) + 1)
            ops[at:at] = block
        if P == "C03" and rng.random() < 0.08:
            # two independently opened handles of one job that both used the document; clear() through the
            # first, then a document write through the second (which must not bring the cleared keys back)
            a = {"a": 11, "b": rng.choice([1, 2])}
            block = [["open", 0, a, False], ["init", -1], ["doc_set", -1, "p", 1], ["open", 0, a, False],
                     ["doc_set", -1, "q", 2], [rng.choice(["clear", "clear", "reset"]), -2], ["doc_set", -1, "p", 3]]
            at = rng.randrange(0, len(ops) + 1)
            ops[at:at] = block
        if P == "C02" and rng.random() < 0.10:
            # a job that is valid on disk from an earlier session is opened by a mapping the caller then
            # mutates, and looked up by id / prefix / iteration in the same session
            a = gen_sp(rng, "abcd", 2)
            block = [["open", 0, a, True], ["init", -1], ["restart"], ["open", 0, a, True], ["lookup", 0],
                     ["open_id", 0, a, rng.choice([32, "min", "min+1"])], ["lookup", 0]]
            at = rng.randrange(0, len(ops) + 1)
            ops[at:at] = block
        if P == "C04" and rng.random() < 0.08:
            # a whole assignment that is refused, through a handle opened by id in a fresh session without a
            # cache file whose state point was never looked at; then the next legitimate edit
            a, b = {"a": 10, "c": 1}, {"a": 10, "c": 2}
            block = [["open", 0, a, False], ["init", -1], ["open", 0, b, False], ["init", -1], ["restart"],
                     ["rm_cache", 0], ["open_id", 0, a, 32],
                     ["sp_assign", -1, b, rng.choice(["sp", "statepoint"])], ["sp_set", -1, "b", 4]]
            at = rng.randrange(0, len(ops) + 1)
            ops[at:at] = block
        sc["ops"] = ops
        return sc

    def shrink(self, scenario):
        yield from generic_shrink(scenario, "ops")
        if scenario["knobs"].get("listing") != "sorted":
            c = dict(scenario)
            c["knobs"] = dict(scenario["knobs"], listing="sorted", chunk="none")
            yield c

    def sample(self, scenario, result):
        return {"ops": scenario["ops"][:25], "n_ops": len(scenario["ops"]),
                "executed": result.get("executed"), "knobs": scenario["knobs"]}

    # ------------------------------------------------------------------
    def execute(self, sc, ctx):
        install_locks()
        install_pools(2)
        res = {"violations": [], "keys": [], "stats": {"faults": {}, "probes": {}},
               "nontrivial": False}
        root = os.path.join(ctx.scratch, "w")
        with SimWorld(root, seed=sc.get("seed", 0), knobs=sc["knobs"]) as world:
            run = Run(self.prop, sc, world, res)
            try:
                run.go()
            except Mismatch as m:
                res["violations"].append(viol(m.prop, m.vclass, m.msg, m.fp))
            res["executed"] = run.executed
            res["digest"] = world.digest()
            res["stats"]["steps"] = world.seq
            res["stats"]["sim_ms"] = world.clock_ms - 1_000_000_000_000
            res["stats"]["probes"] = run.probes
            res["stats"]["faults"] = {"restart": run.probes.get("restart", 0),
                                      "cache_removed": run.probes.get("rm_cache", 0),
                                      "stale_cache_observation": run.probes.get("stale_cache_obs", 0)}
            res["nontrivial"] = run.mutations > 0
            res["keys"] = run.keys
        return res


class H:
    """One live handle and what the model says it denotes."""
    __slots__ = ("obj", "proj", "sp", "group", "kind", "tainted", "refused", "caller_map", "orig_sp",
                 "loaded", "doc_touched", "doc_dead", "by_id")

    def __init__(self, obj, proj, sp, group, kind):
        self.obj, self.proj, self.sp, self.group, self.kind = obj, proj, norm(sp), group, kind
        self.tainted = False
        self.refused = False
        self.caller_map = None
        self.orig_sp = None
        self.loaded = False
        self.by_id = kind == "by_id"  # opened by id (or copied from such a handle): knows its state
        # point only once it has been loaded
        self.doc_touched = False  # the handle's lazy document object exists
        self.doc_dead = False  # ... and its job directory vanished behind its back since


class Run:
    def __init__(self, prop, sc, world, res):
        import signac

        self.signac = signac
        self.prop = prop
        self.sc = sc
        self.world = world
        self.res = res
        self.pp = [world.p("p1"), world.p("p2")]
        self.projects = [signac.init_project(p) for p in self.pp]
        self.model = [{}, {}]  # id -> {"sp","doc","files","lin"}
        self.ever = [{}, {}]  # id -> state point, of every job that ever existed in the project
        self.decoys = [set(), set()]
        self.emptydirs = [set(), set()]
        self.handles = []
        self.groups = 0
        self.lineages = 0
        self.probes = {}
        self.mutations = 0
        self.keys = []
        self.executed = 0
        self.grams = []
        self.cache_written = [False, False]
        self.shortcut = None

    def probe(self, name, n=1):
        self.probes[name] = self.probes.get(name, 0) + n

    # ---- helpers ----------------------------------------------------
    def pick(self, h):
        if not self.handles:
            return None
        return self.handles[h % len(self.handles)]

    def group_members(self, hd):
        return [x for x in self.handles if x.group == hd.group]

    def job_of(self, hd):
        return self.model[hd.proj].get(cid(hd.sp))

    def new_group(self):
        self.groups += 1
        return self.groups

    def taint_others(self, proj, jid, except_group=None, except_handle=None):
        for x in self.handles:
            if x is except_handle:
                continue
            if except_group is not None and x.group == except_group:
                continue
            if x.proj == proj and cid(x.sp) == jid:
                x.tainted = True
                if x.doc_touched:
                    # synced_collections keeps the in-memory content when the file disappears;
                    # what such a document handle shows afterwards is not part of any property
                    x.doc_dead = True

    def call(self, fn):
        """Run fn; return (exception or None, log segment)."""
        start = len(self.world.log)
        try:
            fn()
            exc = None
        except Exception as e:  # noqa: BLE001 - the outcome is compared with the model
            exc = e
        return exc, self.world.log[start:]

    def expect(self, exc, want, op, prop="C03"):
        """want: None (success) or an exception class name (matched against the MRO)."""
        got = None if exc is None else type(exc).__name__
        if want is None and exc is None:
            return
        if want is not None and exc is not None and want in [c.__name__ for c in type(exc).__mro__]:
            return
        raise Mismatch(prop, f"{prop}:{op[0]}:outcome", f"op {op}: expected {want or 'success'}, got "
                       f"{got}: {str(exc)[:200]}", f"{prop}:{op[0]}:expected-{want}-got-{got}")

    # ---- the loop ----------------------------------------------------
    def go(self):
        ops = self.sc["ops"]
        for i, op in enumerate(ops):
            fn = getattr(self, "op_" + op[0])
            for pi in (0, 1):
                for jid, m in self.model[pi].items():
                    self.ever[pi][jid] = m["sp"]
            try:
                fn(op)
            except Mismatch as m:
                # C03 is "the workspace equals the model after any history": an operation whose outcome or
                # disk effect differs from the model is a C03 divergence too, whatever detail oracle saw it
                # first (handle accessors, pickling and the dependency's assignment shortcuts stay C04's)
                if self.prop == "C03" and m.prop == "C04" and not m.vclass.startswith(
                        ("C04:handle", "C04:pickle", "C04:assign")):
                    raise Mismatch("C03", "C03:operation-diverges-from-model:" + m.vclass.split(":", 1)[1],
                                   m.msg, "C03:operation-diverges-from-model:" + m.fp.split(":", 1)[1])
                raise
            self.executed = i + 1
            self.grams.append(op[0])
            if len(self.grams) >= 3:
                self.keys.append("g:" + ">".join(self.grams[-3:]))
            self.observe(op)
        self.keys.append("s:" + self.abstract_state())

    def abstract_state(self):
        import hashlib

        parts = []
        for pi in (0, 1):
            for jid in sorted(self.model[pi]):
                j = self.model[pi][jid]
                parts.append(f"{pi}:{jid[:6]}:{len(j['doc'])}:{sorted(j['files'])}")
        parts.append(",".join(sorted(h.kind for h in self.handles)))
        return hashlib.md5("|".join(parts).encode()).hexdigest()[:16]

    # ---- operations --------------------------------------------------
    def op_open(self, op):
        _, pi, sp, mutate = op[:4]
        spelling = op[4] if len(op) > 4 else "dict"
        caller = self.spell(copy.deepcopy(sp), spelling, pi)
        if spelling != "dict":
            mutate = False
            self.probe("open_spelling_" + spelling)
        exc, seg = self.call(lambda: self._open(pi, caller, sp))
        self.expect(exc, None, op, "C02")
        hd = self.handles[-1]
        muts = [e for e in seg if e[2] in MUTATING]
        if muts:
            raise Mismatch("C02", "C02:open_job:wrote-to-disk",
                           f"open_job({sp}) made mutating calls: {muts[:3]}")
        if self.prop == "C02":
            # every accessor describes sp right after opening (nothing is on disk yet, nothing is loaded)
            try:
                got = {"id": hd.obj.id, "cached_statepoint": dict(hd.obj.cached_statepoint),
                       "statepoint": hd.obj.statepoint()}
            except Exception as e:  # noqa: BLE001
                raise Mismatch("C02", "C02:open_job:accessor-raised",
                               f"open_job({sp}) then id / cached_statepoint / statepoint raised "
                               f"{type(e).__name__}: {e}", f"C02:open_job:accessor-raised:{type(e).__name__}")
            hd.loaded = True
            if got["id"] != cid(sp) or not same(got["cached_statepoint"], sp) or not same(got["statepoint"], sp):
                raise Mismatch("C02", "C02:open_job:accessor-differs", f"open_job({sp}) shows {got}")
        if mutate:
            # later mutation of the caller's mapping must not reach the handle
            caller["zz_mut"] = 1
            for k, v in list(caller.items()):
                if isinstance(v, dict):
                    v["zz_in"] = 2
                elif isinstance(v, list):
                    v.append("zz")
            if hd.obj.id != cid(sp) or not same(hd.obj.statepoint(), sp) or \
                    not same(dict(hd.obj.cached_statepoint), sp):
                raise Mismatch("C02", "C02:open_job:aliases-caller-mapping",
                               f"after mutating the caller's mapping the handle shows id={hd.obj.id} "
                               f"sp={hd.obj.statepoint()} cached_statepoint={dict(hd.obj.cached_statepoint)} "
                               f"(expected {cid(sp)} / {sp})")
            hd.loaded = True
            self.probe("caller_mutated")
            jid = cid(sp)
            if jid in self.model[pi] and not self.decoys[pi] and not self.emptydirs[pi]:
                # ... nor what the same session finds for that job by id, by prefix and by iteration
                proj = self.projects[pi]
                found = {"full id": lambda: proj.open_job(id=jid),
                         "iteration": lambda: next(j for j in proj if j.id == jid)}
                L = 1
                while L < 32 and sum(1 for x in self.model[pi] if x.startswith(jid[:L])) > 1:
                    L += 1
                found[f"prefix[{L}]"] = lambda: proj.open_job(id=jid[:L])
                got = {}
                for how, fn in found.items():
                    exc2, _ = self.call(lambda: got.__setitem__("j", fn()))
                    self.expect(exc2, None, op, "C02")
                    j = got["j"]
                    if j.id != jid or not same(j.statepoint(), sp) or not same(dict(j.cached_statepoint), sp):
                        raise Mismatch("C02", "C02:lookup-after-caller-mutation",
                                       f"after mutating the mapping given to open_job, look-up by {how} in the "
                                       f"same session gives id={j.id} sp={j.statepoint()} (expected {sp})",
                                       "C02:lookup-after-caller-mutation")
                self.probe("caller_mutated_lookup")

    def _open(self, pi, caller, sp=None):
        job = self.projects[pi].open_job(caller)
        hd = H(job, pi, sp if sp is not None else caller, self.new_group(), "by_sp")
        self.handles.append(hd)

    def spell(self, sp, how, pi):
        """Other container spellings of the same JSON value (C02: the id and the stored state point must
        be the same for all of them)."""
        if how == "dict":
            return sp
        if how == "tuples":
            def t(v):
                if isinstance(v, list):
                    return tuple(t(x) for x in v)
                if isinstance(v, dict):
                    return {k: t(x) for k, x in v.items()}
                return v
            return t(sp)
        if how == "reversed":
            from collections import OrderedDict
            return OrderedDict(reversed(list(sp.items())))
        if how == "synced":
            # the live state point object of another (uninitialised) handle, as in open_job(other.sp)
            return self.projects[pi].open_job(copy.deepcopy(sp)).statepoint
        if how == "attrdict":
            from synced_collections.backends.collection_json import JSONAttrDict
            return JSONAttrDict(data=copy.deepcopy(sp))
        return sp

    def op_open_id(self, op):
        _, pi, jsel, plen = op
        ids = sorted(self.model[pi])
        if not ids:
            return
        if isinstance(jsel, dict):
            # (scripted blocks name the job by its state point)
            if cid(jsel) not in self.model[pi]:
                return
            jid = cid(jsel)
        else:
            jid = ids[jsel % len(ids)]
        key = jid
        want = None
        if plen != 32 and not self.decoys[pi]:
            # shortest unique prefix among the model's ids (+1)
            L = 1
            while L < 32 and sum(1 for x in ids if x.startswith(jid[:L])) > 1:
                L += 1
            if plen == "min+1":
                L = min(32, L + 1)
            key = jid[:L]
            cand = [x for x in self.listed_ids(pi) if x.startswith(key)]
            if len(cand) > 1:
                want = "LookupError"
        holder = {}
        exc, seg = self.call(lambda: holder.setdefault("j", self.projects[pi].open_job(id=key)))
        self.expect(exc, want, op, "C02")
        if exc is not None:
            return
        job = holder["j"]
        if job.id != jid:
            raise Mismatch("C02", "C02:open_job:prefix-resolved-to-wrong-job",
                           f"open_job(id={key!r}) gave {job.id}, expected {jid}")
        hd = H(job, pi, self.model[pi][jid]["sp"], self.new_group(), "by_id")
        self.handles.append(hd)

    def op_open_gone(self, op):
        """open_job(id=<full id of a job that no longer exists>): KeyError, or (the session still remembers
        the id) a lazy handle on that state point - which then works like any other handle."""
        _, pi, jsel, follow = op
        gone = sorted(j for j in self.ever[pi] if j not in self.model[pi] and j not in self.emptydirs[pi]
                      and j not in self.decoys[pi])
        if not gone:
            return
        jid = gone[jsel % len(gone)]
        holder = {}
        exc, seg = self.call(lambda: holder.setdefault("j", self.projects[pi].open_job(id=jid)))
        if exc is not None:
            if isinstance(exc, KeyError):
                self.probe("open_gone_keyerror")
                return
            self.expect(exc, "KeyError", op, "C02")
        job = holder["j"]
        muts = [e for e in seg if e[2] in MUTATING]
        if job.id != jid or muts:
            raise Mismatch("C02", "C02:open_job:gone-id", f"open_job(id={jid!r}) of a vanished job gave "
                           f"{job.id}; mutating calls {muts[:3]}")
        self.probe("open_gone_handle")
        self.handles.append(H(job, pi, self.ever[pi][jid], self.new_group(), "by_sp"))
        n = len(self.handles) - 1
        if follow == "doc":
            self.op_doc_set(["doc_set", n, "p", "gone"])
        elif follow == "init":
            self.op_init(["init", n])
        elif follow == "file":
            self.op_doc_reset(["doc_reset", n, {"q": 7}])

    def listed_ids(self, pi):
        """Names the implementation may legitimately treat as job ids: model ids (decoys and empty
        directories are tracked separately)."""
        return sorted(self.model[pi]) + sorted(d for d in self.emptydirs[pi])

    def knows_sp(self, hd):
        """A by-id handle that never loaded its state point cannot re-create a vanished job."""
        return not hd.by_id or hd.loaded or self.job_of(hd) is not None

    def op_init(self, op):
        hd = self.pick(op[1])
        if hd is None or not self.knows_sp(hd):
            return
        jid = cid(hd.sp)
        existed = jid in self.model[hd.proj]
        spfile = os.path.relpath(os.path.join(self.pp[hd.proj], "workspace", jid, SP_FILE),
                                 self.world.root)
        exc, seg = self.call(lambda: hd.obj.init())
        self.expect(exc, None, op, "C02")
        if existed:
            w = [e for e in seg if e[2] in ("open-w", "write", "truncate", "rename", "unlink")
                 and (e[3] == spfile or e[4] == spfile)]
            if w:
                raise Mismatch("C02", "C02:init:rewrote-valid-statepoint-file",
                               f"re-init of valid job {jid} touched its state point file: {w[:3]}")
            self.probe("reinit_valid")
        else:
            self.model[hd.proj][jid] = {"sp": norm(hd.sp), "doc": {}, "files": {}, "lin": self._lin()}
            self.emptydirs[hd.proj].discard(jid)
            self.mutations += 1
        hd.tainted = False
        hd.loaded = True
        for x in self.group_members(hd):
            if x.loaded:
                x.tainted = False

    def _lin(self):
        self.lineages += 1
        return self.lineages

    def _ensure(self, hd):
        """Model side of 'accessing the document initialises the job'."""
        jid = cid(hd.sp)
        if jid not in self.model[hd.proj]:
            self.model[hd.proj][jid] = {"sp": norm(hd.sp), "doc": {}, "files": {}, "lin": self._lin()}
            self.emptydirs[hd.proj].discard(jid)
        return self.model[hd.proj][jid]

    def _usable_for_doc(self, op):
        hd = self.pick(op[1])
        if hd is None or hd.tainted or hd.doc_dead or not self.knows_sp(hd):
            return None
        if cid(hd.sp) in self.emptydirs[hd.proj]:
            # an id-named directory without a state point file is not the product of any public
            # operation; document access does not (and need not) repair it - init() does
            return None
        hd.doc_touched = True
        return hd

    def op_doc_set(self, op):
        hd = self._usable_for_doc(op)
        if hd is None:
            return
        exc, _ = self.call(lambda: hd.obj.doc.__setitem__(op[2], op[3]))
        self.expect(exc, None, op)
        self._ensure(hd)["doc"][op[2]] = norm(op[3])
        self.mutations += 1

    def op_doc_del(self, op):
        hd = self._usable_for_doc(op)
        if hd is None:
            return
        j = self._ensure(hd)
        want = None if op[2] in j["doc"] else "KeyError"
        exc, _ = self.call(lambda: hd.obj.doc.__delitem__(op[2]))
        self.expect(exc, want, op)
        j["doc"].pop(op[2], None)

    def op_doc_reset(self, op):
        hd = self._usable_for_doc(op)
        if hd is None:
            return
        exc, _ = self.call(lambda: setattr(hd.obj, "doc", op[2]))
        self.expect(exc, None, op)
        self._ensure(hd)["doc"] = norm(op[2])
        self.mutations += 1

    def op_file_write(self, op):
        hd = self._usable_for_doc(op)
        if hd is None:
            return
        data = ("DATA:%s:%s\n" % (op[3], op[2])).encode()

        def f():
            hd.obj.init()
            path = hd.obj.fn(op[2])
            d = os.path.dirname(path)
            if not os.path.isdir(d):
                os.makedirs(d)
            with open(path, "wb") as fh:
                fh.write(data)

        exc, _ = self.call(f)
        self.expect(exc, None, op)
        self._ensure(hd)["files"][op[2]] = data
        self.mutations += 1

    def op_file_del(self, op):
        hd = self._usable_for_doc(op)
        if hd is None:
            return
        j = self.job_of(hd)
        if j is None or op[2] not in j["files"]:
            return
        exc, _ = self.call(lambda: os.remove(hd.obj.fn(op[2])))
        self.expect(exc, None, op)
        del j["files"][op[2]]

    def op_clear(self, op):
        hd = self._usable_for_doc(op)
        if hd is None:
            return
        j = self.job_of(hd)
        exc, _ = self.call(lambda: hd.obj.clear())
        self.expect(exc, None, op)
        if j is not None:
            j["doc"] = {}
            j["files"] = {}

    def op_reset(self, op):
        # reset() = clear() + init(): also through a handle whose job directory vanished behind its back
        # (removed or moved away through another handle / process), it re-creates the job
        hd = self.pick(op[1])
        if hd is None or not self.knows_sp(hd) or cid(hd.sp) in self.emptydirs[hd.proj]:
            return
        stale = hd.tainted or hd.doc_dead
        exc, _ = self.call(lambda: hd.obj.reset())
        self.expect(exc, None, op)
        j = self._ensure(hd)
        j["doc"] = {}
        j["files"] = {}
        self.mutations += 1
        if stale:
            self.probe("reset_through_stale_handle")
        hd.tainted = False
        hd.loaded = True
        if not hd.doc_dead:
            hd.doc_touched = True
        for x in self.group_members(hd):
            if x.loaded:
                x.tainted = False

    def op_remove(self, op):
        hd = self.pick(op[1])
        if hd is None:
            return
        jid = cid(hd.sp)
        exc, _ = self.call(lambda: hd.obj.remove())
        self.expect(exc, None, op)
        if jid in self.model[hd.proj]:
            del self.model[hd.proj][jid]
            self.mutations += 1
            self.taint_others(hd.proj, jid, except_handle=hd)
        self.emptydirs[hd.proj].discard(jid)

    # ---- state point changes ----------------------------------------
    def _rekey(self, op, hd, new_sp, do, pre_error=None):
        if not hd.refused:
            self._rekey2(op, hd, new_sp, do, pre_error)
            hd.loaded = True
            return
        try:
            self._rekey2(op, hd, new_sp, do, pre_error)
        except Mismatch as m:
            raise Mismatch("C03", "C03:rekey-after-refused-rekey",
                           "after a state point change was refused with DestinationExistsError the next "
                           "change through the same handle does not start from the job's (unchanged) "
                           f"state point: {m.msg}",
                           "C03:handle-keeps-new-statepoint-after-refused-rekey")
        for x in self.group_members(hd):
            x.refused = False

    def _rekey2(self, op, hd, new_sp, do, pre_error=None):
        self.shortcut = None
        if op[0] in ("sp_assign", "update_sp"):
            why = self._update_shortcut(hd.sp, new_sp)
            if why:
                self.shortcut = (hd.group, why, dict(hd.sp))
        try:
            self._rekey3(op, hd, new_sp, do, pre_error)
            if self.shortcut is not None and pre_error is None:
                # the input has the shape of the dependency's open finding: if it struck (also where no
                # other oracle looks, e.g. a job that is not on disk) the model has diverged - the run
                # ends here as that finding instead of carrying a wrong state point along
                try:
                    got = hd.obj.statepoint()
                except Exception:  # noqa: BLE001
                    got = None
                if got is not None and not same(got, new_sp) and not hd.refused:
                    raise Mismatch("C04", "C04:assign:" + self.shortcut[1],
                                   f"op {op}: the handle shows {got}, assigned {new_sp} [old state point "
                                   f"{self.shortcut[2]}]", "C04:assign:" + self.shortcut[1])
        except Mismatch as m:
            # two input classes for which the in-place update of the dependency
            # (synced_collections SyncedDict._update, used by reset) keeps the old value
            why = self._update_shortcut(hd.sp, new_sp) if op[0] in ("sp_assign", "update_sp") else None
            if why and m.prop == "C04":
                raise Mismatch("C04", "C04:assign:" + why, f"{m.msg} [old state point {hd.sp}]",
                               "C04:assign:" + why)
            raise

    @staticmethod
    def _update_shortcut(old, new):
        for k, v in new.items():
            if k not in old:
                continue
            o = old[k]
            if v is None and isinstance(o, (dict, list)):
                return "none-over-nested-collection-ignored"
            if not isinstance(o, (dict, list)) and not isinstance(v, (dict, list)) and o == v \
                    and type(o) is not type(v):
                return "equal-but-differently-typed-value-ignored"
        return None

    def _rekey3(self, op, hd, new_sp, do, pre_error=None):
        """Common model for every route of changing a state point."""
        P = "C04"
        old_sp = hd.sp
        old_id, new_id = cid(old_sp), cid(new_sp)
        pi = hd.proj
        src = self.model[pi].get(old_id)
        dst = self.model[pi].get(new_id)
        before = self.dir_snaps(pi, [old_id, new_id])
        proj_before = snapshot(self.pp[pi]) if pre_error else None
        exc, seg = self.call(do)
        if pre_error:
            self.expect(exc, pre_error, op, P)
            after = snapshot(self.pp[pi])
            if after != proj_before:
                raise Mismatch(P, f"C04:{op[0]}:refused-but-changed-disk",
                               f"op {op} raised {pre_error} but the project changed")
            return
        if old_id == new_id:
            self.expect(exc, None, op, P)
            return
        if src is None:
            # uninitialised source: handle (and its copies) re-keyed, disk untouched
            self.expect(exc, None, op, P)
            after = self.dir_snaps(pi, [old_id, new_id])
            if after != before:
                raise Mismatch(P, f"C04:{op[0]}:uninitialised-rekey-touched-disk",
                               f"op {op} on an uninitialised job changed the disk")
            for x in self.group_members(hd):
                x.sp = norm(new_sp)
            self.probe("rekey_uninitialised")
            return
        if dst is not None:
            self.expect(exc, "DestinationExistsError", op, P)
            after = self.dir_snaps(pi, [old_id, new_id])
            if after != before:
                raise Mismatch(P, f"C04:{op[0]}:refused-but-changed-disk",
                               f"op {op} raised DestinationExistsError but the job directories changed: "
                               f"{self.snap_diff(before, after)}")
            for x in self.group_members(hd):
                x.refused = True
            self.probe("rekey_refused")
            return
        if new_id in self.emptydirs[pi]:
            # destination is an empty directory: either outcome, never a loss
            if exc is not None:
                self.expect(exc, "DestinationExistsError", op, P)
                after = self.dir_snaps(pi, [old_id, new_id])
                if after != before:
                    raise Mismatch(P, f"C04:{op[0]}:refused-but-changed-disk",
                                   f"op {op} raised on an empty destination directory and changed the disk")
                for x in self.group_members(hd):
                    x.refused = True
                return
            self.emptydirs[pi].discard(new_id)
            self.probe("rekey_onto_empty_dir")
        else:
            self.expect(exc, None, op, P)
        # success: data carried byte-identically, old id gone
        after = self.dir_snaps(pi, [old_id, new_id])
        if after[old_id] is not None:
            raise Mismatch(P, f"C04:{op[0]}:old-id-still-present", f"op {op}: {old_id} still exists")
        b, a = before[old_id], after[new_id]
        if a is None:
            raise Mismatch(P, f"C04:{op[0]}:new-id-missing", f"op {op}: {new_id} does not exist")
        # temporary / backup leftovers are C03's business ("no temporary or backup files are left
        # behind"), checked by the observer; here only the job's own data is compared
        def tmpname(r):
            base = r.rsplit("/", 1)[-1]
            return base.endswith("~") or base.startswith("._")

        bd = {r: e for r, e in b.items() if r != SP_FILE and not tmpname(r)}
        ad = {r: e for r, e in a.items() if r != SP_FILE and not tmpname(r)}
        if bd != ad:
            raise Mismatch(P, f"C04:{op[0]}:data-not-carried",
                           f"op {op}: files differ after re-key: {self.snap_diff({'x': bd}, {'x': ad})}")
        del self.model[pi][old_id]
        src["sp"] = norm(new_sp)
        self.model[pi][new_id] = src
        for x in self.group_members(hd):
            x.sp = norm(new_sp)
        self.taint_others(pi, old_id, except_group=hd.group)
        self.mutations += 1
        self.probe("rekey_ok")

    def dir_snaps(self, pi, ids):
        out = {}
        for jid in ids:
            d = os.path.join(self.pp[pi], "workspace", jid)
            out[jid] = snapshot(d) if os.path.isdir(d) else None
        return out

    dir_snaps = quiet(dir_snaps)

    def snap_diff(self, a, b):
        out = []
        for k in a:
            x, y = a[k] or {}, b.get(k) or {}
            for r in sorted(set(x) | set(y)):
                if x.get(r) != y.get(r):
                    out.append(f"{k[:8]}/{r}")
        return out[:6]

    def _sp_handle(self, op):
        hd = self.pick(op[1])
        if hd is None:
            return None
        if hd.by_id and not hd.loaded and self.job_of(hd) is None:
            return None  # a by-id handle whose job is gone cannot know its state point
        return hd

    def op_sp_set(self, op):
        hd = self._sp_handle(op)
        if hd is None:
            return
        new_sp = {**hd.sp, op[2]: op[3]}
        self._rekey(op, hd, new_sp, lambda: hd.obj.sp.__setitem__(op[2], op[3]))

    def op_sp_del(self, op):
        hd = self._sp_handle(op)
        if hd is None or op[2] not in hd.sp:
            return
        new_sp = {k: v for k, v in hd.sp.items() if k != op[2]}
        self._rekey(op, hd, new_sp, lambda: hd.obj.sp.__delitem__(op[2]))

    def op_sp_nested(self, op):
        hd = self._sp_handle(op)
        if hd is None:
            return
        route, v = op[2], op[3]
        sp = copy.deepcopy(hd.sp)
        if route == "n.x":
            if not isinstance(sp.get("n"), dict):
                return
            sp["n"]["x"] = v
            do = lambda: setattr(hd.obj.sp.n, "x", v)  # noqa: E731
        elif route == "l.append":
            if not isinstance(sp.get("l"), list):
                return
            sp["l"].append(v)
            do = lambda: hd.obj.sp.l.append(v)  # noqa: E731
        else:
            if not isinstance(sp.get("l"), list) or not sp["l"]:
                return
            sp["l"][0] = v
            do = lambda: hd.obj.sp["l"].__setitem__(0, v)  # noqa: E731
        self._rekey(op, hd, sp, do)

    def op_sp_assign(self, op):
        hd = self._sp_handle(op)
        if hd is None:
            return
        self._rekey(op, hd, op[2], lambda: setattr(hd.obj, op[3], copy.deepcopy(op[2])))

    def op_update_sp(self, op):
        hd = self._sp_handle(op)
        if hd is None:
            return
        upd, ow = op[2], op[3]
        conflict = any(k in hd.sp and not same(hd.sp[k], v) and hd.sp[k] != v for k, v in upd.items())
        if hd.by_id and not hd.loaded and self.job_of(hd) is None:
            return  # statepoint() of a by-id handle whose job is gone: not part of this property
        if conflict and not ow:
            self._rekey(op, hd, hd.sp, lambda: hd.obj.update_statepoint(upd, overwrite=False),
                        pre_error="KeyError")
            return
        self._rekey(op, hd, {**hd.sp, **upd}, lambda: hd.obj.update_statepoint(upd, overwrite=ow))

    # ---- move / clone ------------------------------------------------
    def op_move(self, op):
        P = "C04"
        hd = self._sp_handle(op)
        if hd is None:
            return
        if hd.by_id and not hd.loaded and self.job_of(hd) is None:
            return
        src_pi, dst_pi = hd.proj, 1 - hd.proj
        jid = cid(hd.sp)
        if jid in self.emptydirs[src_pi]:
            return  # the source is an artificial empty directory, not an (un)initialised job
        src = self.model[src_pi].get(jid)
        dst = self.model[dst_pi].get(jid)
        b_src = self.dir_snaps(src_pi, [jid])[jid]
        b_dst = self.dir_snaps(dst_pi, [jid])[jid]
        exc, _ = self.call(lambda: hd.obj.move(self.projects[dst_pi]))
        a_src = self.dir_snaps(src_pi, [jid])[jid]
        a_dst = self.dir_snaps(dst_pi, [jid])[jid]
        if src is None:
            self.expect(exc, "RuntimeError", op, P)
            unchanged = True
        elif dst is not None:
            self.expect(exc, "DestinationExistsError", op, P)
            unchanged = True
        elif jid in self.emptydirs[dst_pi] and exc is not None:
            self.expect(exc, "DestinationExistsError", op, P)
            unchanged = True
        else:
            self.expect(exc, None, op, P)
            unchanged = False
        if unchanged:
            if (a_src, a_dst) != (b_src, b_dst):
                raise Mismatch(P, "C04:move:refused-but-changed-disk", f"op {op}: refused move changed the disk")
            self.probe("move_refused")
            return
        if a_src is not None or a_dst != b_src:
            raise Mismatch(P, "C04:move:data-not-carried",
                           f"op {op}: after move source={'present' if a_src is not None else 'gone'}, "
                           f"destination differs from the source's former content: "
                           f"{self.snap_diff({'x': b_src}, {'x': a_dst or {}})}")
        self.emptydirs[dst_pi].discard(jid)
        del self.model[src_pi][jid]
        self.model[dst_pi][jid] = src
        self.taint_others(src_pi, jid, except_handle=hd)
        hd.proj = dst_pi
        hd.group = self.new_group()
        self.mutations += 1
        self.probe("move_ok")

    def op_buffered_move(self, op):
        """with signac.buffered(): job.doc[k] = v; job.move(other project) - as one step (the observation after
        it sees the block's result): the document change must arrive with the job."""
        P = "C04"
        hd = self._usable_for_doc(op)
        if hd is None or hd.tainted:
            return
        src_pi, dst_pi = hd.proj, 1 - hd.proj
        jid = cid(hd.sp)
        if jid in self.model[dst_pi] or jid in self.emptydirs[dst_pi] or jid in self.emptydirs[src_pi] \
                or jid in self.decoys[dst_pi]:
            return  # the plain move's refusals are op_move's business

        def f():
            with self.signac.buffered():
                hd.obj.doc[op[2]] = op[3]
                hd.obj.move(self.projects[dst_pi])

        exc, _ = self.call(f)
        self.expect(exc, None, op, P)
        j = self._ensure(hd)
        j["doc"][op[2]] = norm(op[3])
        del self.model[src_pi][jid]
        self.model[dst_pi][jid] = j
        self.taint_others(src_pi, jid, except_handle=hd)
        hd.proj = dst_pi
        hd.group = self.new_group()
        self.mutations += 1
        self.probe("buffered_move")

    def op_buffered_clone(self, op):
        """with signac.buffered(): job.doc[k] = v; other_project.clone(job) - as one step: the copy is made with
        the document change, and the source has it too."""
        P = "C04"
        hd = self._usable_for_doc(op)
        if hd is None or hd.tainted:
            return
        src_pi, dst_pi = hd.proj, 1 - hd.proj
        jid = cid(hd.sp)
        if jid in self.model[dst_pi] or jid in self.emptydirs[dst_pi] or jid in self.emptydirs[src_pi] \
                or jid in self.decoys[dst_pi]:
            return  # the plain clone's refusals are op_clone's business
        holder = {}

        def f():
            with self.signac.buffered():
                hd.obj.doc[op[2]] = op[3]
                holder["c"] = self.projects[dst_pi].clone(hd.obj)

        exc, _ = self.call(f)
        self.expect(exc, None, op, P)
        j = self._ensure(hd)
        j["doc"][op[2]] = norm(op[3])
        self.model[dst_pi][jid] = {"sp": copy.deepcopy(j["sp"]), "doc": copy.deepcopy(j["doc"]),
                                   "files": dict(j["files"]), "lin": self._lin()}
        with self.world.observing():
            got = read_json(os.path.join(self.pp[dst_pi], "workspace", jid, DOC_FILE))
        if got[0] != "ok" or not same(got[1], j["doc"]):
            raise Mismatch(P, "C04:buffered_clone:copy-differs",
                           f"op {op}: the clone's document file is {got[0]} {str(got[1])[:120]}, the source's "
                           f"document is {j['doc']}")
        self.handles.append(H(holder["c"], dst_pi, j["sp"], self.new_group(), "clone"))
        self.handles[-1].loaded = True
        self.mutations += 1
        self.probe("buffered_clone")

    def op_clone(self, op):
        P = "C04"
        hd = self._sp_handle(op)
        if hd is None:
            return
        if hd.by_id and not hd.loaded and self.job_of(hd) is None:
            return
        src_pi, dst_pi = hd.proj, 1 - hd.proj
        jid = cid(hd.sp)
        if jid in self.emptydirs[src_pi]:
            return
        src = self.model[src_pi].get(jid)
        dst = self.model[dst_pi].get(jid)
        b_src = self.dir_snaps(src_pi, [jid])[jid]
        b_dst = self.dir_snaps(dst_pi, [jid])[jid]
        holder = {}
        exc, _ = self.call(lambda: holder.setdefault("j", self.projects[dst_pi].clone(hd.obj)))
        a_src = self.dir_snaps(src_pi, [jid])[jid]
        a_dst = self.dir_snaps(dst_pi, [jid])[jid]
        if src is None:
            want = "ValueError"
            if dst is not None or jid in self.emptydirs[dst_pi]:
                want = None  # either refusal is acceptable when both conditions hold
                if exc is None:
                    raise Mismatch(P, "C04:clone:uninitialised-source-accepted", f"op {op} succeeded")
            else:
                self.expect(exc, want, op, P)
            unchanged = True
        elif dst is not None or jid in self.emptydirs[dst_pi]:
            self.expect(exc, "DestinationExistsError", op, P)
            unchanged = True
        else:
            self.expect(exc, None, op, P)
            unchanged = False
        if a_src != b_src:
            raise Mismatch(P, "C04:clone:source-changed", f"op {op}: clone changed the source job")
        if unchanged:
            if a_dst != b_dst:
                raise Mismatch(P, "C04:clone:refused-but-changed-disk", f"op {op}: refused clone changed "
                               f"the destination")
            self.probe("clone_refused")
            return
        if a_dst != b_src:
            raise Mismatch(P, "C04:clone:copy-differs", f"op {op}: the copy differs from the source: "
                           f"{self.snap_diff({'x': b_src}, {'x': a_dst or {}})}")
        self.model[dst_pi][jid] = {"sp": norm(src["sp"]), "doc": copy.deepcopy(src["doc"]),
                                   "files": dict(src["files"]), "lin": self._lin()}
        nh = H(holder["j"], dst_pi, src["sp"], self.new_group(), "clone")
        nh.loaded = True
        self.handles.append(nh)
        self.mutations += 1
        self.probe("clone_ok")
        # "an independent copy": writing into the clone's files in place must not reach the source
        cfiles = self.model[dst_pi][jid]["files"]
        if cfiles:
            with self.world.observing():
                for rel in sorted(cfiles):
                    with O.io_open(os.path.join(self.pp[dst_pi], "workspace", jid, rel), "ab") as fh:
                        fh.write(b"+clone")
                    cfiles[rel] = cfiles[rel] + b"+clone"
            if self.dir_snaps(src_pi, [jid])[jid] != b_src:
                raise Mismatch(P, "C04:clone:not-independent",
                               f"op {op}: appending to the files of the clone changed the source job "
                               f"(shared storage): {sorted(cfiles)[:3]}")
            self.probe("clone_independence_checked")

    # ---- sessions, caches, handle copies -----------------------------
    def op_update_cache(self, op):
        pi = op[1]
        exc, _ = self.call(lambda: self.projects[pi].update_cache())
        if exc is not None and (self.emptydirs[pi] or self.decoys[pi]):
            # an id-named directory without a state point file is legitimately reported
            self.expect(exc, "JobsCorruptedError", op)
            return
        self.expect(exc, None, op)
        self.cache_written[pi] = True
        self.probe("update_cache")

    def op_rm_cache(self, op):
        pi = op[1]
        p = os.path.join(self.pp[pi], CACHE_REL)
        with self.world.observing():
            if os.path.exists(p):
                O.unlink(p)
                self.probe("rm_cache")
        self.cache_written[pi] = False

    def op_rm_workspace(self, op):
        """The (empty) workspace directory of a project without jobs is removed behind signac's back, as
        after `rmdir workspace`: the project is then simply empty and the next init() recreates it."""
        pi = op[1]
        if self.model[pi] or self.decoys[pi] or self.emptydirs[pi]:
            return
        ws = os.path.join(self.pp[pi], "workspace")
        with self.world.observing():
            if os.path.isdir(ws) and not O.listdir(ws):
                O.rmdir(ws)
                self.probe("workspace_removed")

    def op_restart(self, op):
        self.handles = []
        self.projects = [self.signac.Project(self.spelled_path(i)) for i in range(2)]
        self.probe("restart")

    def spelled_path(self, i):
        """After a restart the project may be opened through another spelling of its path."""
        how = self.sc.get("proj_spelling", "plain")
        p = self.pp[i]
        if how == "dotdot":
            return os.path.join(p, "workspace", os.pardir)
        if how == "symlink":
            link = self.world.p(f"link_p{i + 1}")
            with self.world.observing():
                if not os.path.lexists(link):
                    O.symlink(p, link)
            return link
        return p

    def op_drop(self, op):
        if self.handles:
            self.handles.pop(op[1] % len(self.handles))

    def op_copy(self, op):
        hd = self.pick(op[1])
        if hd is None:
            return
        if hd.by_id and not hd.loaded and self.job_of(hd) is None:
            return  # copying loads the state point, which a by-id handle of a vanished job cannot
        holder = {}
        exc, seg = self.call(lambda: holder.setdefault("j", copy.copy(hd.obj)))
        self.expect(exc, None, op, "C04")
        nh = H(holder["j"], hd.proj, hd.sp, hd.group, "copy")
        nh.tainted, nh.refused, nh.loaded = hd.tainted, hd.refused, hd.loaded
        nh.doc_touched, nh.doc_dead, nh.by_id = hd.doc_touched, hd.doc_dead, hd.by_id
        hd.loaded = nh.loaded = True  # copying instantiates the shared state point
        self.handles.append(nh)
        self.probe("copy")

    def op_deepcopy(self, op):
        hd = self.pick(op[1])
        if hd is None or hd.refused:
            return
        holder = {}
        exc, _ = self.call(lambda: holder.setdefault("j", copy.deepcopy(hd.obj)))
        self.expect(exc, None, op, "C04")
        nh = H(holder["j"], hd.proj, hd.sp, self.new_group(), "deepcopy")
        nh.tainted, nh.loaded = hd.tainted, hd.loaded
        nh.doc_touched, nh.doc_dead, nh.by_id = hd.doc_touched, hd.doc_dead, hd.by_id
        self.handles.append(nh)
        self.probe("deepcopy")

    def op_pickle(self, op):
        hd = self.pick(op[1])
        if hd is None or hd.refused:
            return
        if hd.by_id and not hd.loaded and self.job_of(hd) is None:
            return
        holder = {}
        ncopies = sum(1 for x in self.handles if x.group == hd.group)
        exc, _ = self.call(lambda: holder.setdefault("j", pickle.loads(pickle.dumps(hd.obj))))
        if exc is not None:
            raise Mismatch("C04", "C04:pickle:round-trip-raised",
                           f"pickle round trip of a {hd.kind} handle ({ncopies} handle(s) in its copy "
                           f"group) raised {type(exc).__name__}: {str(exc)[:120]}",
                           "C04:pickle:round-trip-raised:" + type(exc).__name__
                           + (":with-live-copy" if ncopies > 1 else ""))
        nh = H(holder["j"], hd.proj, hd.sp, self.new_group(), "pickle")
        nh.tainted, nh.loaded = hd.tainted, True
        nh.doc_touched, nh.doc_dead = hd.doc_touched, hd.doc_dead
        hd.loaded = True
        self.handles.append(nh)
        self.probe("pickle")

    def op_pickle_fresh(self, op):
        """Pickle the handle into a freshly started interpreter, let it do one operation there."""
        import subprocess
        import sys

        hd = self.pick(op[1])
        if hd is None or hd.refused or hd.tainted or not self.knows_sp(hd):
            return
        sub = op[2]
        if sub[0] == "doc_set" and cid(hd.sp) in self.emptydirs[hd.proj]:
            return  # document access does not repair an artificial empty id-named directory (see _usable_for_doc)
        want_id, want_sp, moved = cid(hd.sp), hd.sp, False
        if sub[0] == "sp_set":
            # the other process changes the state point through the unpickled handle
            want_sp = norm({**hd.sp, sub[1]: sub[2]})
            want_id = cid(want_sp)
            if want_id in self.emptydirs[hd.proj] or cid(hd.sp) in self.emptydirs[hd.proj] or self.decoys[hd.proj]:
                return
            if want_id != cid(hd.sp) and want_id in self.model[hd.proj] and cid(hd.sp) in self.model[hd.proj]:
                want_id, want_sp = cid(hd.sp), hd.sp  # refused: the destination exists
            elif want_id != cid(hd.sp) and cid(hd.sp) in self.model[hd.proj]:
                moved = True
        ncopies = sum(1 for x in self.handles if x.group == hd.group)
        try:
            blob = pickle.dumps(hd.obj)
        except Exception as e:  # noqa: BLE001
            raise Mismatch("C04", "C04:pickle:dumps-raised", f"pickle.dumps of a {hd.kind} handle raised "
                           f"{type(e).__name__}: {e}")
        hd.loaded = True
        repo = os.environ.get("VERIF_REPO", "/repo")
        script = (
            "import sys, pickle, json\n"
            f"sys.path.insert(0, {repo!r})\n"
            "sys.dont_write_bytecode = True\n"
            "import logging; logging.disable(logging.CRITICAL)\n"
            "job = pickle.loads(sys.stdin.buffer.read())\n"
            f"sub = {sub!r}\n"
            "if sub[0] == 'init': job.init()\n"
            "elif sub[0] == 'doc_set': job.doc[sub[1]] = sub[2]\n"
            "elif sub[0] == 'remove': job.remove()\n"
            "elif sub[0] == 'sp_set':\n"
            "    import signac\n"
            "    try: job.sp[sub[1]] = sub[2]\n"
            "    except signac.errors.DestinationExistsError: pass\n"
            "print(json.dumps({'id': job.id, 'sp': job.statepoint(), 'path': job.path}))\n"
        )
        with self.world.observing():
            r = subprocess.run([sys.executable, "-c", script], input=blob, capture_output=True, timeout=60)
        self.probe("pickle_fresh")
        if r.returncode != 0:
            err = r.stderr.decode(errors="replace").strip().splitlines()[-1:] or ["?"]
            fp = "C04:pickle:round-trip-raised:RecursionError" + (":with-live-copy" if ncopies > 1 else "") \
                if "RecursionError" in err[0] else "C04:pickle:fresh-interpreter-raised"
            raise Mismatch("C04", "C04:pickle:fresh-interpreter-raised",
                           f"a {hd.kind} handle ({ncopies} in its copy group) unpickled in a fresh interpreter and "
                           f"asked to {sub} failed: {err[0][:200]}", fp)
        import json as _json
        out = _json.loads(r.stdout.decode().strip().splitlines()[-1])
        jid = cid(hd.sp)
        if out["id"] != want_id or not same(out["sp"], want_sp) or \
                os.path.realpath(out["path"]) != os.path.realpath(os.path.join(self.pp[hd.proj], "workspace", want_id)):
            raise Mismatch("C04", "C04:pickle:fresh-handle-differs",
                           f"the unpickled handle describes {out} after {sub}, expected {want_sp} ({want_id[:8]}); "
                           f"the original denotes {hd.sp} ({jid[:8]})")
        if moved:
            # another process re-keyed the job: this session's handles on the old id are stale
            self.model[hd.proj][want_id] = self.model[hd.proj].pop(jid)
            self.model[hd.proj][want_id]["sp"] = norm(want_sp)
            self.taint_others(hd.proj, jid)
            self.mutations += 1
            self.probe("pickle_fresh_rekey")
        if sub[0] == "init" or sub[0] == "doc_set":
            j = self._ensure(hd)
            if sub[0] == "doc_set":
                j["doc"][sub[1]] = sub[2]
            self.mutations += 1
        elif sub[0] == "remove":
            if jid in self.model[hd.proj]:
                del self.model[hd.proj][jid]
                self.taint_others(hd.proj, jid)
            self.emptydirs[hd.proj].discard(jid)

    def op_init_project(self, op):
        pi = op[1]
        before = snapshot(self.pp[pi])
        exc, _ = self.call(lambda: self.signac.init_project(self.pp[pi]))
        self.expect(exc, None, op)
        if snapshot(self.pp[pi]) != before:
            raise Mismatch("C03", "C03:init_project:changed-existing-project",
                           f"init_project on an existing project changed it")
        self.probe("init_project")

    def op_decoy(self, op):
        _, pi, kind, jsel = op
        ids = sorted(self.model[pi])
        base = ids[jsel % len(ids)] if ids else cid({"decoy": jsel})
        ws = os.path.join(self.pp[pi], "workspace")
        name = {"bak": base + "_bak", "hex31": base[:31], "hex33": base + "a", "upper": base.upper(),
                "file": cid({"decoy_file": jsel}), "tilde": base + "~"}[kind]
        if name.isdigit() and kind == "upper":
            return
        with self.world.observing():
            p = os.path.join(ws, name)
            if os.path.lexists(p):
                return
            if kind == "file":
                with O.io_open(p, "wb") as f:
                    f.write(b"not a job")
            else:
                O.mkdir(p)
                with O.io_open(os.path.join(p, "note.txt"), "wb") as f:
                    f.write(b"decoy")
        self.decoys[pi].add(name)
        self.probe("decoy_" + kind)

    def op_emptydir(self, op):
        _, pi, sp = op
        jid = cid(sp)
        if jid in self.model[pi]:
            return
        with self.world.observing():
            p = os.path.join(self.pp[pi], "workspace", jid)
            if not os.path.lexists(p):
                O.mkdir(p)
        self.emptydirs[pi].add(jid)
        self.probe("emptydir")

    # ---- C02 lookups ---------------------------------------------------
    def op_lookup(self, op):
        P = "C02"
        pi = op[1]
        ids = sorted(self.model[pi])
        proj = self.signac.Project(self.pp[pi])
        listed = self.listed_ids(pi)
        for jid in ids:
            for L in range(1, 33):
                pre = jid[:L]
                cand = [x for x in listed if x.startswith(pre)]
                try:
                    j = proj.open_job(id=pre)
                    got = j.id
                except LookupError as e:
                    got = type(e).__name__
                if len(cand) == 1 or L == 32:
                    want = jid
                else:
                    want = "LookupError"
                if got != want:
                    raise Mismatch(P, "C02:open_job:prefix-lookup",
                                   f"open_job(id={pre!r}) -> {got}, expected {want} (ids sharing the "
                                   f"prefix: {len(cand)})", "C02:open_job:prefix-lookup-wrong")
                if got == jid and L in (1, 2, 8, 31, 32) and jid not in self.emptydirs[pi]:
                    spv = j.statepoint()
                    if not same(spv, self.model[pi][jid]["sp"]):
                        raise Mismatch(P, "C02:open_job:lookup-statepoint-differs",
                                       f"open_job(id={pre!r}) gives state point {spv}, expected "
                                       f"{self.model[pi][jid]['sp']}", "C02:open_job:lookup-statepoint-differs")
            # near-miss: same prefix, different tail
            for L in (4, 16, 31):
                nm = jid[:L] + ("0" if jid[L] != "0" else "1") * (32 - L)
                if nm in listed:
                    continue
                try:
                    proj.open_job(id=nm)
                    got = "opened"
                except KeyError:
                    got = "KeyError"
                except LookupError:
                    got = "LookupError"
                if got != "KeyError":
                    raise Mismatch(P, "C02:open_job:unknown-id-accepted",
                                   f"open_job(id={nm!r}) -> {got}, expected KeyError")
        self.probe("lookup_sweeps")

    # ---- observation after every step --------------------------------
    def observe(self, op):
        with self.world.observing():
            self._observe(op)

    def _observe(self, op):
        for pi in (0, 1):
            pp = self.pp[pi]
            M = self.model[pi]
            raw = raw_project(pp)
            raw_ids = {j for j in raw if j not in self.emptydirs[pi] and j not in self.decoys[pi]}
            if raw_ids != set(M):
                raise Mismatch("C03", "C03:model:id-set",
                               f"after {op}: project {pi + 1} holds {sorted(x[:8] for x in raw_ids)}, model "
                               f"{sorted(x[:8] for x in M)}", self._fp_ids(op, raw_ids, set(M)))
            for jid, mj in M.items():
                rj = raw[jid]
                st, sp = rj["sp"]
                if st != "ok" or not same(sp, mj["sp"]):
                    raise Mismatch("C03", "C03:model:statepoint",
                                   f"after {op}: {jid[:8]} state point file {st}: {str(sp)[:80]!r}, model "
                                   f"{mj['sp']}")
                if cid(sp) != jid:
                    raise Mismatch("C03", "C03:model:dirname-not-hash",
                                   f"after {op}: directory {jid} holds state point {sp} with id {cid(sp)}")
                dst, doc = rj["doc"]
                if not ((dst == "absent" and mj["doc"] == {}) or (dst == "ok" and same(doc, mj["doc"]))):
                    raise Mismatch("C03", "C03:model:document",
                                   f"after {op}: {jid[:8]} document {dst} {str(doc)[:80]!r}, model {mj['doc']}")
                files = {r: e[1] for r, e in rj["files"].items() if e[0] == "f"
                         and not (r.endswith("~") or r.rsplit("/", 1)[-1].startswith("._"))}
                if files != mj["files"]:
                    raise Mismatch("C03", "C03:model:files",
                                   f"after {op}: {jid[:8]} files {sorted(files)} vs model {sorted(mj['files'])}")
            lo = [x for x in leftovers(pp) if x.rsplit("/", 1)[-1] not in self.decoys[pi]
                  and not any(x.startswith("workspace/" + d) for d in self.decoys[pi])]
            if lo:
                raise Mismatch("C03", "C03:leftover-temporary-files", f"after {op}: leftovers {lo[:4]}")
            # fresh session
            expected_listing = set(M) | self.emptydirs[pi]
            try:
                proj = self.signac.Project(pp)
                n = len(proj)
                ids_iter = sorted(j.id for j in proj)
                ids_find = sorted(proj._find_job_ids())
            except Exception as e:  # noqa: BLE001
                fp = self._fp_decoy("C03:fresh-session:listing-raised", pi)
                raise Mismatch("C03", fp,
                               f"after {op}: listing project {pi + 1} raised {type(e).__name__}: {e}", fp)
            if not (n == len(ids_iter) and ids_iter == ids_find):
                raise Mismatch("C03", "C03:fresh-session:len-iter-disagree",
                               f"after {op}: len={n} iter={len(ids_iter)} find={len(ids_find)}")
            extra = set(ids_iter) - expected_listing
            missing = set(M) - set(ids_iter)
            if extra or missing:
                fp = self._fp_decoy("C03:fresh-session:id-set", pi, extra)
                raise Mismatch("C03", fp,
                               f"after {op}: fresh session lists extra={sorted(extra)} missing="
                               f"{sorted(missing)} (decoys {sorted(self.decoys[pi])})", fp)
            for jid, mj in M.items():
                try:
                    j = proj.open_job(id=jid)
                    if j not in proj:
                        raise Mismatch("C03", "C03:fresh-session:membership", f"after {op}: {jid} not in project")
                    sp = j.statepoint()
                    doc = j.document()
                except Mismatch:
                    raise
                except Exception as e:  # noqa: BLE001
                    raise Mismatch("C03", "C03:fresh-session:open-raised",
                                   f"after {op}: opening {jid[:8]} raised {type(e).__name__}: {e}")
                if not same(sp, mj["sp"]) or not same(doc, mj["doc"]):
                    raise Mismatch("C03" if self.prop != "C02" else "C02", "C03:fresh-session:content",
                                   f"after {op}: fresh handle {jid[:8]} sp={sp} doc={doc}; model "
                                   f"sp={mj['sp']} doc={mj['doc']}")
                if self.prop == "C02":
                    csp = dict(j.cached_statepoint)
                    if not same(csp, mj["sp"]):
                        raise Mismatch("C02", "C02:reopen:cached_statepoint-differs",
                                       f"after {op}: cached_statepoint {csp} vs {mj['sp']}")
            # listing again, now that this session has read the cache file and opened every job
            try:
                again = sorted(proj._find_job_ids())
                n2 = len(proj)
            except Exception as e:  # noqa: BLE001
                raise Mismatch("C03", "C03:fresh-session:listing-raised", f"after {op}: second listing raised "
                               f"{type(e).__name__}: {e}")
            if again != ids_find or n2 != n:
                raise Mismatch("C03", "C03:fresh-session:listing-changed-after-open",
                               f"after {op}: the same session lists {len(again)} ids after opening its "
                               f"jobs, {len(ids_find)} before")
            # the long-lived project handle of this session (its in-memory cache may be stale)
            live = self.projects[pi]
            try:
                live_ids = sorted(live._find_job_ids())
                live_iter = sorted(j.id for j in live)
                live_n = len(live)
            except Exception as e:  # noqa: BLE001
                fp = self._fp_decoy("C03:live-session:listing-raised", pi)
                raise Mismatch("C03", fp, f"after {op}: live project listing raised {type(e).__name__}: {e}", fp)
            if not (live_n == len(live_ids) and live_ids == live_iter):
                raise Mismatch("C03", "C03:live-session:len-iter-disagree",
                               f"after {op}: live len={live_n} find={len(live_ids)} iter={len(live_iter)}")
            extra = set(live_ids) - expected_listing
            missing = set(M) - set(live_ids)
            if extra or missing:
                fp = self._fp_decoy("C03:live-session:id-set", pi, extra)
                raise Mismatch("C03", fp, f"after {op}: the session's own project handle lists extra="
                               f"{sorted(extra)} missing={sorted(missing)}", fp)
            if not self.decoys[pi] and not self.emptydirs[pi]:
                try:
                    ok, bad = check_project(pp)
                except Exception as e:  # noqa: BLE001
                    raise Mismatch("C03", "C03:check:raised-other", f"after {op}: check() raised "
                                   f"{type(e).__name__}: {e}")
                if not ok:
                    raise Mismatch("C03", "C03:check:reports-corruption",
                                   f"after {op}: check() reports {bad} on a workspace the model calls healthy")
            if self.cache_written[pi]:
                self.probe("stale_cache_obs")
        if self.prop != "C03":
            # handle accessors are C04's (and C02's) business; a C03 run keeps going and judges the
            # workspace, which is where an incoherent handle eventually shows
            self._coherence(op)

    def _fp_ids(self, op, raw_ids, model_ids):
        hd = None
        if len(op) > 1 and isinstance(op[1], int) and self.handles and op[0].startswith(("sp_", "update_sp")):
            hd = self.pick(op[1])
        return f"C03:model:id-set:{op[0]}"

    def _fp_decoy(self, base, pi, extra=()):
        kinds = set()
        for d in self.decoys[pi]:
            if d.endswith("_bak"):
                kinds.add("suffix")
            elif d.endswith("~"):
                kinds.add("suffix")
            elif len(d) == 33:
                kinds.add("suffix")
            elif len(d) == 32 and HEX32.match(d):
                kinds.add("file")
        if extra and all(not HEX32.match(x) for x in extra):
            return base + ":decoy-with-id-prefix-counted"
        if kinds == {"file"} or (extra and all(x in self.decoys[pi] for x in extra)):
            return base + ":file-named-like-id-counted"
        return base

    def _coherence(self, op):
        try:
            self._coherence2(op)
        except Mismatch as m:
            if self.prop == "C02":
                # a C02 history has no state point changes: a handle that stops describing the state
                # point it was opened with is C02's "opening is exact and unaffected by the caller"
                raise Mismatch("C02", "C02:handle-differs:" + m.vclass.split(":", 1)[1], m.msg,
                               "C02:handle-differs:" + m.fp.split(":", 1)[1])
            if "after a refused state point change" in m.msg:
                raise Mismatch("C04", "C04:handle:incoherent-after-refused-change", m.msg,
                               "C04:handle:incoherent-after-refused-change")
            sc = getattr(self, "shortcut", None)
            if sc and m.prop == "C04":
                raise Mismatch("C04", "C04:assign:" + sc[1], f"{m.msg} [old state point {sc[2]}]",
                               "C04:assign:" + sc[1])
            raise
        self.shortcut = None

    def _coherence2(self, op):
        """C04: every live handle describes the job the model says it denotes."""
        P = "C04"
        for hd in self.handles:
            if hd.tainted:
                continue
            jid = cid(hd.sp)
            tag = f"{hd.kind} handle{' (after a refused state point change)' if hd.refused else ''} after {op}"
            if hd.obj.id != jid:
                raise Mismatch(P, "C04:handle:id", f"{tag}: id {hd.obj.id[:8]} but denotes {hd.sp} "
                               f"({jid[:8]})", f"C04:handle:{hd.kind}:id-not-following")
            want_path = os.path.join(self.pp[hd.proj], "workspace", jid)
            if os.path.realpath(hd.obj.path) != os.path.realpath(want_path):
                raise Mismatch(P, "C04:handle:path", f"{tag}: path {hd.obj.path} expected {want_path}",
                               f"C04:handle:{hd.kind}:path-not-following")
            mj = self.model[hd.proj].get(jid)
            if hd.by_id and mj is None and not hd.loaded:
                continue
            if not hd.loaded and self.sc.get("observe_handles", "all") == "lazy":
                continue  # do not trigger the lazy state point load from the observer
            try:
                sp = hd.obj.statepoint()
            except Exception as e:  # noqa: BLE001
                raise Mismatch(P, "C04:handle:statepoint-raised", f"{tag}: statepoint() raised "
                               f"{type(e).__name__}: {e}", f"C04:handle:{hd.kind}:statepoint-raised")
            hd.loaded = True
            if not same(sp, hd.sp):
                raise Mismatch(P, "C04:handle:statepoint", f"{tag}: statepoint() {sp} but denotes {hd.sp}",
                               f"C04:handle:{hd.kind}:statepoint-not-following")
            try:
                csp = dict(hd.obj.cached_statepoint)
            except Exception as e:  # noqa: BLE001
                raise Mismatch(P, "C04:handle:cached_statepoint-raised", f"{tag}: cached_statepoint raised "
                               f"{type(e).__name__}: {e}", f"C04:handle:{hd.kind}:cached_statepoint-raised")
            if not same(csp, hd.sp):
                raise Mismatch(P, "C04:handle:cached_statepoint",
                               f"{tag}: cached_statepoint {csp} but the job's state point is {hd.sp}",
                               "C04:handle:cached_statepoint-stale-after-rekey")
            if mj is not None and not hd.doc_dead:
                if not hd.doc_touched and self.sc.get("observe_handles", "all") == "lazy":
                    continue  # nor the creation of the lazy document object
                hd.doc_touched = True
                try:
                    doc = hd.obj.document()
                except Exception as e:  # noqa: BLE001
                    raise Mismatch(P, "C04:handle:document-raised", f"{tag}: document() raised "
                                   f"{type(e).__name__}: {e}", f"C04:handle:{hd.kind}:document-raised")
                if not same(doc, mj["doc"]):
                    raise Mismatch(P, "C04:handle:document", f"{tag}: document() {doc} but model {mj['doc']}",
                                   f"C04:handle:{hd.kind}:document-not-following")

"""Engine `docs` (C05): documents are faithful persistent dicts; buffering is transparent.

A seeded list of mapping operations on 1-3 job documents plus the project
document, through 1-3 independent handles each, is executed in three worlds in
lock-step: (A) as generated, with random buffered sub-blocks (nesting <= 3) and
capacity changes; (B) with the buffer operations stripped; (C) wholly inside one
buffered block.  Oracle: a plain dict per document.  Outside blocks, after every
operation, the writing handle, every other handle and json.load(file) equal the
model; inside a block the writing handle sees the block's writes; whenever no
block is open in A, the files of A and B are equal, and at the end all three.

The buffer is a write-back cache in front of the disk: capacity, nesting, flush
order and the clock policy (the flush's metadata check reads size and mtime) are
the schedule/fault dimension here, plus restarts and stale-handle histories
(remove + re-init, re-key of the owning job).
"""

import os

from machines.common import DOC_FILE, PDOC_FILE, cid, norm, quiet, read_json, same, viol
from machines.lifecycle import Mismatch
from simcore.driver import EngineBase, generic_shrink
from simcore.sched import install_locks, install_pools
from simcore.world import SimWorld, snapshot

# type-stable value universe per key (see DESIGN: the dependency's in-place update conflates
# 1 / True / 1.0 and ignores None over a nested collection; those two patterns are probed by
# dedicated operations only)
VAL = {
    "i": [0, 1, 2, 7, 2**53 - 1],
    "f": [0.5, 2.5, -1.25, 1e-9],
    "s": ["", "a", "é", "x y", "1"],
    "b": [True, False],
    "n": [None, None, 3],
    "d": [{"x": 1}, {"x": 2, "y": "s"}, {}, {"deep": {"z": 1}}],
    "l": [[], [1], [1, 2, 3], [[1], [2]]],
}
KEYS = sorted(VAL)


def gen_val(rng, key):
    return rng.choice(VAL[key])


def gen_doc(rng):
    return {k: gen_val(rng, k) for k in rng.sample(KEYS, rng.randrange(0, 4))}


class Engine(EngineBase):
    def budget(self, tier):
        return (2000, 55.0) if tier == "quick" else (50000, 900.0)

    def rule(self):
        return ("seeded operation lists (<= 40) of item/attribute set, delete, update, setdefault, pop, clear, "
                "reset, nested dict and list mutation, invalid keys/values, reads, restart, remove+re-init, "
                "re-key of the owning job (also inside a block), kept references and side copies of handles, "
                "buffered enter/exit (nesting <= 3) and buffer capacity in "
                "{0, 64, 1024, default}, blocks left normally or by an exception; on 1-3 job documents + the project "
                "document through 1-3 handles each (opened independently or copy / deepcopy / pickle of the first); "
                "executed unbuffered, as generated and fully buffered. distinct = operation 3-grams and "
                "(final model, buffer events) digests; non-trivial = at least one write inside a buffered block "
                "or one stale-handle path taken")

    def generate(self, rng, tier):
        knobs = {"listing": "shuffle", "chunk": rng.choice(["none", "split2"]),
                 "clock": rng.choice(["inc", "coarse", "stall", "back"]),
                 "mt": rng.random() < 0.7}
        kind = rng.choice(["buffer", "buffer", "stale"])
        ntargets = rng.randrange(1, 5)  # last target is the project document
        nh = [rng.randrange(1, 4) for _ in range(ntargets)]
        if kind == "buffer" and rng.random() < 0.35:
            # several handles on one document inside a buffered block can run into a known defect of the
            # dependency (see known_findings.json); when exactly is computed (block_exit), but a run
            # that meets it ends there, so part of the buffered scenarios use one handle per document
            nh = [1] * ntargets
        ops = []
        depth = 0
        n = rng.randrange(5, 40)
        # share of operations through kept references / side copies (swarm: most runs few, some runs many)
        heldw = rng.choice([0.08, 0.08, 0.4])
        for _ in range(n):
            t = rng.randrange(ntargets)
            h = rng.randrange(nh[t])
            key = rng.choice(KEYS)
            r = rng.random()
            if kind == "buffer" and r < 0.12 and depth < 3:
                ops.append(["enter", rng.choice([None, None, 0, 64, 1024])])
                depth += 1
                continue
            if kind == "buffer" and r < 0.22 and depth > 0:
                # a block is left normally, or by an exception that propagates out of it
                ops.append(["exit"] if rng.random() < 0.75 else ["exit", "exc"])
                depth -= 1
                continue
            if kind == "buffer" and r < 0.25:
                ops.append(["capacity", rng.choice([0, 64, 1024, 32 * 2**20])])
                continue
            if (kind == "stale" and r < 0.10) or (kind == "buffer" and 0.25 <= r < 0.28):
                # fresh handles (in buffered scenarios also in the middle of a block)
                ops.append(["restart"])
                continue
            if kind == "buffer" and 0.31 <= r < 0.33 and t < ntargets - 1:
                # the job is removed and used again through the same handle (also inside a block, after its
                # document was read or written there)
                ops.append(["remove_reinit", t, h])
                continue
            if kind == "buffer" and 0.28 <= r < 0.31 and t < ntargets - 1:
                # the owning job changes its state point (also in the middle of a block, with document
                # changes still held in the buffer: they must travel with the job)
                ops.append(["rekey", t, h, rng.randrange(1000)])
                continue
            if kind == "stale" and r < 0.18 and t < ntargets - 1:
                ops.append(["remove_reinit", t, h])
                continue
            if kind == "stale" and r < 0.26 and t < ntargets - 1:
                ops.append(["rekey", t, h, rng.randrange(1000)])
                continue
            if kind == "stale" and r < 0.28:
                ops.append([rng.choice(["probe_none_over_nested", "probe_type_flip"]), t])
                continue
            if r > 1 - heldw:
                # references kept by the caller (the document object, or a nested mapping of it) and used
                # later; and handles copied / pickled on the side, which must not disturb the original
                k2 = rng.choice(["hold", "hold", "held_set", "held_set", "held_set", "side_copy"])
                if k2 == "hold":
                    ops.append([k2, t, h, rng.choice(["doc", "d", "d"])])
                elif k2 == "held_set":
                    which = rng.choice(["doc", "d", "d"])
                    ops.append([k2, t, h, which, key if which == "doc" else rng.choice(["x", "y", "w"]),
                                gen_val(rng, key) if which == "doc" else rng.choice([1, 2, 5, "s"])])
                else:
                    ops.append([k2, t, h, rng.choice(["copy", "pickle"])])
                continue
            k = rng.choice(["set", "set", "set", "setattr", "del", "update", "setdefault", "pop", "clear",
                            "reset", "nested_set", "nested_set", "list_op", "list_op", "read", "read",
                            "bad_key", "bad_val", "whole_assign", "assign_from"])
            if k in ("set", "setattr", "setdefault"):
                ops.append([k, t, h, key, gen_val(rng, key)])
            elif k in ("del", "pop"):
                ops.append([k, t, h, key])
            elif k == "update":
                ops.append([k, t, h, {kk: gen_val(rng, kk) for kk in rng.sample(KEYS, 2)}])
            elif k == "assign_from":
                # whole assignment whose right-hand side is the live document of another job / the project
                if ntargets < 2:
                    continue
                ops.append([k, t, h, rng.choice([x for x in range(ntargets) if x != t])])
            elif k in ("reset", "whole_assign"):
                d = gen_doc(rng)
                r2 = rng.random()
                if r2 < 0.15:
                    d["s"] = "L" * 90      # larger than the 64-byte buffer capacity
                elif r2 < 0.22:
                    d["s"] = "L" * 1500    # larger than the 1 KiB capacity
                ops.append([k, t, h, d])
            elif k == "nested_set":
                ops.append([k, t, h, rng.choice(["x", "y", "w"]), rng.choice([1, 2, 5, "s"])])
            elif k == "list_op":
                ops.append([k, t, h, rng.choice(["append", "insert", "extend", "setitem", "delitem"]),
                            rng.choice([1, 2, 9])])
            elif k == "bad_key":
                ops.append([k, t, h, rng.choice(["int", "dotted", "tuple"])])
            elif k == "bad_val":
                ops.append([k, t, h, key])
            else:
                ops.append([k, t, h])
        ops += [["exit"]] * depth
        if kind == "buffer" and rng.random() < 0.08:
            # a constellation random histories rarely line up: inside one block a reference is kept, the
            # handle is copied / pickled on the side, the handle is used again, and the last write of the
            # block goes through the kept reference
            t = rng.randrange(ntargets)
            h = rng.randrange(nh[t])
            which = rng.choice(["doc", "d"])
            if which == "d":
                ops.append(["set", t, h, "d", {"x": 1}])
            ops += [["enter", None], ["hold", t, h, which], ["side_copy", t, h, rng.choice(["copy", "pickle"])],
                    rng.choice([["read", t, h], ["setdefault", t, h, "s", "a"], ["read", t, h]]),
                    ["held_set", t, h, which, "y" if which == "d" else "i",
                     rng.choice([1, 2, 5, "s"]) if which == "d" else gen_val(rng, "i")], ["exit"]]
        # further handles on a job are independently opened ones, or copies of the first handle (made
        # before or after that one has touched its document)
        hkinds = [[rng.choice(["open", "open", "open", "copy", "deepcopy", "deepcopy_touched", "pickle_touched"])
                   for _ in range(nh[t])] for t in range(ntargets)]
        return {"knobs": knobs, "kind": kind, "ntargets": ntargets, "nh": nh, "ops": ops,
                "path_spellings": rng.random() < 0.4, "hkinds": hkinds}

    def shrink(self, scenario):
        for c in generic_shrink(scenario, "ops"):
            # keep enter/exit balanced
            d = 0
            ok = True
            for op in c["ops"]:
                if op[0] == "enter":
                    d += 1
                elif op[0] == "exit":
                    d -= 1
                    if d < 0:
                        ok = False
                        break
            if ok and d == 0:
                yield c

    def sample(self, scenario, result):
        return {"kind": scenario["kind"], "ops": scenario["ops"][:30], "nh": scenario["nh"],
                "knobs": scenario["knobs"]}

    def execute(self, sc, ctx):
        import signac

        install_locks()
        install_pools(2)
        if not sc["knobs"].get("mt", True):
            signac.JSONDict.disable_multithreading()
        res = {"violations": [], "keys": [], "stats": {"faults": {}, "probes": {}}, "nontrivial": False}
        root = os.path.join(ctx.scratch, "w")
        with SimWorld(root, seed=sc.get("seed", 0), knobs=sc["knobs"]) as world:
            run = Run(sc, world, signac)
            try:
                run.go()
            except Mismatch as m:
                res["violations"].append(viol(m.prop, m.vclass, m.msg, m.fp))
            res["executed"] = run.executed
            res["keys"] = run.keys
            res["nontrivial"] = run.probes.get("buffered_write", 0) > 0 or run.probes.get("stale_path", 0) > 0
            res["stats"]["probes"] = run.probes
            res["stats"]["faults"] = {k: run.probes.get(k, 0) for k in
                                      ("buffer_enter", "forced_flush_capacity", "restart", "remove_reinit", "rekey")}
            res["digest"] = world.digest()
            res["stats"]["steps"] = world.seq
            res["stats"]["sim_ms"] = world.clock_ms - 1_000_000_000_000
        return res


class World:
    """One of the three executions: own project, own handles, own buffering mode."""

    def __init__(self, run, name, mode):
        self.run, self.name, self.mode = run, name, mode  # mode: asgen | stripped | oneblock
        self.pp = run.world.p("p" + name)
        self.signac = run.signac
        self.project = self.signac.init_project(self.pp)
        sc = run.sc
        self.sps = [{"t": i} for i in range(sc["ntargets"] - 1)]
        self.ctx = []  # open buffered contexts
        self.make_handles()

    def make_handles(self):
        try:
            self._make_handles()
        except Mismatch:
            raise
        except Exception as e:  # noqa: BLE001 - opening, copying or pickling a handle and fetching its document
            raise Mismatch("C05", "C05:handles:raised",
                           f"world {self.mode}: opening / copying the handles raised {type(e).__name__}: "
                           f"{str(e)[:200]}", f"C05:handles:raised:{type(e).__name__}")

    def _make_handles(self):
        sc = self.run.sc
        self.handles = []
        self.held = {}  # (target, handle) -> {"doc": document object, "d": nested mapping} kept by the caller
        for t in range(sc["ntargets"]):
            hs = []
            for hi in range(sc["nh"][t]):
                # independent handles may be opened through differently spelled (absolute) paths
                spelled = [self.pp, os.path.join(self.pp, "workspace", os.pardir),
                           os.path.join(os.path.dirname(self.pp), ".", os.path.basename(self.pp)),
                           self.pp.replace("/p", "//p", 1)][(hi + t) % 4 if sc.get("path_spellings") else 0]
                p = self.signac.Project(spelled)
                hk = (sc.get("hkinds") or [["open"] * 4] * 8)[t][hi] if (hi and t != sc["ntargets"] - 1) else "open"
                if hk == "open":
                    hs.append(p if t == sc["ntargets"] - 1 else p.open_job(self.sps[t]))
                else:
                    import copy
                    import pickle
                    if hk.endswith("_touched"):
                        hs[0].doc  # the lazily created document object exists before the copy is made
                    hs.append(copy.copy(hs[0]) if hk == "copy" else
                              pickle.loads(pickle.dumps(hs[0])) if hk.startswith("pickle") else copy.deepcopy(hs[0]))
                    self.run.probe("handle_" + hk)
            self.handles.append(hs)

    def doc(self, t, h):
        return self.handles[t][h].doc

    def path(self, t):
        if t == self.run.sc["ntargets"] - 1:
            return os.path.join(self.pp, PDOC_FILE)
        return os.path.join(self.pp, "workspace", cid(self.sps[t]), DOC_FILE)

    def depth(self):
        return len(self.ctx)

    def enter(self, cap):
        c = self.signac.buffered(cap) if cap is not None else self.signac.buffered()
        c.__enter__()
        self.ctx.append(c)

    def exit(self, with_exception=False):
        try:
            if with_exception:
                # what the with statement does when the body raises: the block must still be left
                # (flushed, buffering switched off) and the exception must propagate (falsy result)
                boom = KeyError("raised inside the block")
                try:
                    swallowed = self.ctx.pop().__exit__(KeyError, boom, None)
                except KeyError as e:
                    if e is not boom:
                        raise
                    swallowed = False
                if swallowed:
                    raise Mismatch("C05", "C05:buffered:exception-swallowed",
                                   f"world {self.mode}: signac.buffered() swallowed an exception raised in its body")
                return
            self.ctx.pop().__exit__(None, None, None)
        except Mismatch:
            raise
        except Exception as e:  # noqa: BLE001 - leaving a buffered block must flush, not fail
            raise Mismatch("C05", "C05:buffered:exit-raised",
                           f"world {self.mode}: leaving signac.buffered() raised {type(e).__name__}: {str(e)[:200]}",
                           f"C05:buffered:exit-raised:{type(e).__name__}")


class Run:
    def __init__(self, sc, world, signac):
        self.sc, self.world, self.signac = sc, world, signac
        self.probes = {}
        self.keys = []
        self.executed = 0
        self.model = [{} for _ in range(sc["ntargets"])]
        self.grams = []
        self.used_in_block = {}  # target -> handles used while a block was open (this world)

    def probe(self, k):
        self.probes[k] = self.probes.get(k, 0) + 1

    def go(self):
        """The buffer mode and capacity are process-global, so the three worlds run one after the
        other (each leaves every block before the next starts); their file views are compared at the
        same operation indices afterwards."""
        sc = self.sc
        modes = ["asgen", "stripped"] + (["oneblock"] if sc["kind"] == "buffer" else [])
        views = {}
        for mode in modes:
            self.signac.set_buffer_capacity(32 * 2**20)
            self.model = [{} for _ in range(sc["ntargets"])]
            w = World(self, mode[0], mode)
            self.w = w
            self.used_in_block = {}
            self.defect_possible = {}   # target -> the dependency's flush defect may have struck (this world)
            self.blk = None             # bookkeeping of the open outermost block (see block_* below)
            self.capacity_touched = False
            if mode == "oneblock":
                w.enter(None)
                self.block_enter(None)
            vs = []
            for i, op in enumerate(sc["ops"]):
                self.step(op, w)
                if mode == "asgen":
                    self.executed = i + 1
                    self.grams.append(op[0])
                    if len(self.grams) >= 3:
                        self.keys.append("g:" + ">".join(self.grams[-3:]))
                vs.append(self.file_view(w) if w.depth() == 0 else None)
            if mode == "oneblock":
                self.block_exit(w)
                w.exit()
            while w.depth():
                if w.depth() == 1:
                    self.block_exit(w)
                w.exit()
            vs.append(self.file_view(w))
            self.check_all(w, "at the end")
            views[mode] = vs
            self.multi_targets = getattr(self, "multi_targets", set()) | {t for t, v in
                                                                          self.defect_possible.items() if v}
        ops = sc["ops"] + [["end"]]
        for i, va in enumerate(views["asgen"]):
            if va is not None:
                self.compare(va, views["stripped"][i], "asgen", "stripped", f"after op {i} {ops[i]}")
        if "oneblock" in views:
            self.compare(views["stripped"][-1], views["oneblock"][-1], "stripped", "oneblock", "at the end")
        import hashlib
        from model.canon import canon
        self.keys.append("m:" + hashlib.md5((canon(self.model) + str(sorted(self.probes))).encode()).hexdigest()[:12])

    # ------------------------------------------------------------------
    def step(self, op, w):
        k = op[0]
        if k == "enter":
            if w.mode == "asgen":
                w.enter(op[1])
                self.block_enter(op[1], nested=w.depth() > 1)
                self.probe("buffer_enter")
            return
        if k == "exit":
            if w.mode == "asgen" and w.depth():
                if w.depth() == 1:
                    self.block_exit(w)
                w.exit(with_exception=len(op) > 1)
                if w.depth() == 0:
                    if self.signac.is_buffered():
                        raise Mismatch("C05", "C05:buffered:still-buffered-after-exit",
                                       f"world {w.mode}: signac.is_buffered() is still true after the outermost "
                                       f"block was left ({'by an exception' if len(op) > 1 else 'normally'})")
                    self.check_all(w, "after leaving the buffered block")
            return
        if k == "capacity":
            if w.mode == "asgen":
                self.capacity_touched = True
                if self.blk is not None:
                    self.block_coarse()
                before = self.signac.get_current_buffer_size()
                self.signac.set_buffer_capacity(op[1])
                if before > op[1]:
                    self.probe("forced_flush_capacity")
            return
        if k == "restart":
            w.make_handles()
            self.probe("restart")
            self.probe("stale_path")
            if self.blk is not None:
                # the old handle objects stay registered with the buffer: which one is flushed first is
                # no longer tracked exactly
                self.blk["simple"] = False
                for t in list(self.blk["order"]):
                    self.blk["order"][t] = self.blk["order"][t] + ["old"]
                self.block_coarse()
                self.probe("restart_inside_block")
            return
        if k == "side_copy":
            t, h = op[1], op[2]
            if t == self.sc["ntargets"] - 1:
                return
            import copy
            import pickle
            try:
                copy.copy(w.handles[t][h]) if op[3] == "copy" else pickle.dumps(w.handles[t][h])
            except Exception as e:  # noqa: BLE001
                raise Mismatch("C05", "C05:side_copy:raised", f"world {w.mode}: {op} raised {type(e).__name__}: {e}")
            self.probe("side_copy")
            return
        if k == "hold":
            t, h = op[1], op[2]
            if op[3] == "d" and not isinstance(self.model[t].get("d"), dict):
                return
            self.step(["read", t, h], w)
            ref = w.doc(t, h)
            w.held.setdefault((t, h), {})[op[3]] = ref if op[3] == "doc" else ref["d"]
            self.probe("hold_" + op[3])
            return
        if k in ("remove_reinit", "rekey"):
            w.held = {kk: v for kk, v in w.held.items() if kk[0] != op[1]}
        elif (k not in ("nested_set", "held_set", "read", "list_op", "bad_key", "bad_val", "enter", "exit",
                        "capacity", "probe_none_over_nested", "probe_type_flip")
              or (k == "held_set" and op[3] == "doc")):
            # anything that may replace the nested mapping detaches a kept reference to it (for every handle
            # of that document, and for assign_from's source nothing changes)
            for kk in w.held:
                if kk[0] == op[1]:
                    w.held[kk].pop("d", None)
        if k in ("remove_reinit", "rekey", "probe_none_over_nested", "probe_type_flip"):
            try:
                getattr(self, "x_" + k)(op, w)
            except Mismatch:
                raise
            except Exception as e:  # noqa: BLE001 - the document of a removed / re-keyed job must keep working
                raise Mismatch("C05", f"C05:{k}:raised",
                               f"world {w.mode}: {op} raised {type(e).__name__}: {str(e)[:200]}",
                               f"C05:{k}:raised-{type(e).__name__}")
            return
        t = op[1]
        try:
            self.step_mapping(op, w)
        except Mismatch as m:
            # (an assignment from another live document reads that document through one of its handles: when
            # the dependency's flush defect may have struck the SOURCE, a wrong value arrives here)
            via_source = op[0] == "assign_from" and self.defect_possible.get(op[3])
            if (self.defect_possible.get(t) or via_source) and m.fp != "C05:buffered:multi-handle-lost-update":
                raise Mismatch("C05", "C05:buffered:multi-handle-lost-update",
                               "several handles of one document were used inside a buffered block: " + m.msg,
                               "C05:buffered:multi-handle-lost-update")
            raise

    def step_mapping(self, op, w):
        # mapping operation: what a plain dict does, then the real document
        k = op[0]
        t, h = op[1], op[2]
        want_exc, new_model, ret = self.model_apply(self.model[t], op)
        buffered = w.depth() > 0
        if buffered:
            self.used_in_block.setdefault(t, set()).add(h)
            self.block_use(w, t, h, want_exc)
            if k == "assign_from":
                # the assignment reads the other document through its first handle
                self.used_in_block.setdefault(op[3], set()).add(0)
                self.block_use(w, op[3], 0, None)
        exc = None
        got = None
        try:
            # (a whole assignment goes through the property setter of the job / project: the document
            # object must not have been fetched by the harness first)
            got = self.real_apply(None if k in ("whole_assign", "assign_from", "held_set") else w.doc(t, h), op, w, t, h)
        except Exception as e:  # noqa: BLE001
            exc = e
        self.expect(w, op, exc, want_exc)
        if buffered and k != "read" and want_exc is None:
            self.probe("buffered_write")
        if k == "read" and exc is None and not same(got, self.model[t]):
            raise Mismatch("C05", "C05:read:writing-handle",
                           f"world {w.mode} ({'buffered' if buffered else 'unbuffered'}): {op} read "
                           f"{str(got)[:120]} but a dict would hold {str(self.model[t])[:120]}")
        self.model[t] = new_model
        if buffered and self.blk is not None:
            import copy
            self.blk["view"][(t, h)] = copy.deepcopy(new_model)
            if k == "assign_from":
                self.blk["view"][(op[3], 0)] = copy.deepcopy(self.model[op[3]])
        # the writing handle always sees its own writes
        want_seen = self.model[t]
        try:
            ref = w.held.get((t, h), {}).get(op[3]) if k == "held_set" else None
            if ref is not None:
                # the write went through a kept reference: that reference is the writing handle
                seen = ref()
                if op[3] == "d":
                    want_seen = self.model[t]["d"]
            else:
                seen = w.doc(t, h)()
        except Exception as e:  # noqa: BLE001
            raise Mismatch("C05", "C05:read-back:raised", f"world {w.mode}: after {op} reading back raised "
                           f"{type(e).__name__}: {e}")
        if not same(seen, want_seen):
            raise Mismatch("C05", "C05:read-back:writing-handle",
                           f"world {w.mode} ({'buffered' if w.depth() else 'unbuffered'}): after {op} the "
                           f"writing handle shows {str(seen)[:140]}, a dict would hold "
                           f"{str(self.model[t])[:140]}",
                           f"C05:read-back:writing-handle:{'buffered' if w.depth() else 'unbuffered'}:{op[0]}")
        if w.depth() == 0:
            self.check_target(w, t, f"after {op}")

    # ---- when can the dependency's flush defect strike? -------------------------------
    # synced_collections flushes the collections registered in a block in reverse order of their first
    # use; the first one flushed for a file decides from ITS OWN last view of the data: if that view
    # equals what was on disk when the file entered the buffer, the buffered content is dropped (open
    # finding C05:buffered:multi-handle-lost-update).  For a plain block (not nested, default capacity,
    # no expected failures) that condition is computed exactly, so every other multi-handle mismatch
    # is still reported; otherwise any second handle in the block counts as "defect possible".
    def block_enter(self, cap, nested=False):
        if nested:
            if self.blk is not None:
                self.block_coarse()
            return
        self.blk = {"simple": cap is None and not self.capacity_touched, "orig": {}, "order": {}, "view": {},
                    "uncertain": set(), "absent": set()}
        if cap is not None:
            self.capacity_touched = True

    def block_coarse(self):
        self.blk["simple"] = False
        for t, hs in self.blk["order"].items():
            if len(hs) > 1:
                self.defect_possible[t] = True

    def block_use(self, w, t, h, want_exc):
        b = self.blk
        if b is None:
            return
        if t not in b["orig"]:
            with self.world.observing():
                st, val = read_json(w.path(t))
            import copy
            # a missing file enters the buffer as the (empty) in-memory content of the first handle
            b["orig"][t] = {} if st != "ok" else copy.deepcopy(val)
            if st != "ok":
                b["absent"].add(t)
        order = b["order"].setdefault(t, [])
        if h not in order:
            order.append(h)
        if want_exc is not None:
            b["uncertain"].add(t)   # a refused operation may or may not have registered its handle
        if len(order) > 1 and (not b["simple"] or t in b["uncertain"]):
            self.defect_possible[t] = True

    def block_exit(self, w):
        b, self.blk = self.blk, None
        if b is None:
            return
        for t, order in b["order"].items():
            if len(order) < 2:
                continue
            if not b["simple"] or t in b["uncertain"]:
                self.defect_possible[t] = True
                continue
            orig = b["orig"].get(t)
            last = order[-1]
            skipped = same(b["view"].get((t, last)), orig)
            # the flush is skipped: the file stays as it was; and without a file, a handle keeps showing
            # its own last view
            if skipped and (not same(self.model[t], orig) or
                            (t in b["absent"] and any(not same(b["view"].get((t, h)), self.model[t])
                                                      for h in order))):
                self.defect_possible[t] = True
                self.probe("flush_defect_predicted")
            else:
                self.probe("multi_handle_block_checked_exactly")

    def expect(self, w, op, exc, want):
        if want is None and exc is None:
            return
        if want is not None and exc is not None and want in [c.__name__ for c in type(exc).__mro__]:
            return
        raise Mismatch("C05", f"C05:{op[0]}:outcome",
                       f"world {w.mode} ({'buffered' if w.depth() else 'unbuffered'}): {op} expected "
                       f"{want or 'success'}, got {type(exc).__name__ if exc else 'success'}: {str(exc)[:160]}",
                       f"C05:{op[0]}:expected-{want}-got-{type(exc).__name__ if exc else 'success'}")

    # ---- the dict model ---------------------------------------------------
    def model_apply(self, d, op):
        import copy
        k = op[0]
        m = copy.deepcopy(d)
        if k in ("set", "setattr"):
            m[op[3]] = norm(op[4])
        elif k == "setdefault":
            m.setdefault(op[3], norm(op[4]))
        elif k == "del":
            if op[3] not in m:
                return "KeyError", d, None
            del m[op[3]]
        elif k == "pop":
            m.pop(op[3], None)
        elif k == "update":
            m.update(norm(op[3]))
        elif k in ("reset", "whole_assign"):
            m = norm(op[3])
        elif k == "assign_from":
            m = copy.deepcopy(self.model[op[3]])
        elif k == "clear":
            m = {}
        elif k == "nested_set":
            if not isinstance(m.get("d"), dict):
                return "_Skip", d, None
            m["d"][op[3]] = op[4]
        elif k == "held_set":
            if op[3] == "doc":
                m[op[4]] = norm(op[5])
            else:
                if not isinstance(m.get("d"), dict):
                    return "_Skip", d, None
                m["d"][op[4]] = op[5]
        elif k == "list_op":
            lst = m.get("l")
            if not isinstance(lst, list):
                return "_Skip", d, None
            kind, v = op[3], op[4]
            if kind == "append":
                lst.append(v)
            elif kind == "insert":
                lst.insert(0, v)
            elif kind == "extend":
                lst.extend([v, v])
            elif kind == "setitem":
                if not lst:
                    return "IndexError", d, None
                lst[0] = v
            elif kind == "delitem":
                if not lst:
                    return "IndexError", d, None
                del lst[0]
        elif k == "bad_key":
            return {"int": "KeyTypeError", "tuple": "KeyTypeError", "dotted": "InvalidKeyError"}[op[3]], d, None
        elif k == "bad_val":
            return "TypeError", d, None
        return None, m, None

    def real_apply(self, doc, op, w, t, h):
        k = op[0]
        if k == "set":
            doc[op[3]] = op[4]
        elif k == "setattr":
            setattr(doc, op[3], op[4])
        elif k == "setdefault":
            doc.setdefault(op[3], op[4])
        elif k == "del":
            del doc[op[3]]
        elif k == "pop":
            doc.pop(op[3], None)
        elif k == "update":
            doc.update(op[3])
        elif k == "reset":
            doc.reset(op[3])
        elif k == "whole_assign":
            w.handles[t][h].doc = op[3]
        elif k == "assign_from":
            w.handles[t][h].doc = w.handles[op[3]][0].doc
        elif k == "clear":
            doc.clear()
        elif k == "nested_set":
            if not isinstance(self.model[t].get("d"), dict):
                raise _Skip()
            doc["d"][op[3]] = op[4]
        elif k == "held_set":
            ref = w.held.get((t, h), {}).get(op[3])
            if op[3] == "doc":
                (ref if ref is not None else w.doc(t, h))[op[4]] = op[5]
            else:
                if not isinstance(self.model[t].get("d"), dict):
                    raise _Skip()
                (ref if ref is not None else w.doc(t, h)["d"])[op[4]] = op[5]
            if ref is not None:
                self.probe("held_ref_used_" + op[3])
        elif k == "list_op":
            if not isinstance(self.model[t].get("l"), list):
                raise _Skip()
            kind, v = op[3], op[4]
            lst = doc["l"]
            if kind == "append":
                lst.append(v)
            elif kind == "insert":
                lst.insert(0, v)
            elif kind == "extend":
                lst.extend([v, v])
            elif kind == "setitem":
                lst[0] = v
            elif kind == "delitem":
                del lst[0]
        elif k == "read":
            return doc()
        elif k == "bad_key":
            key = {"int": 3, "tuple": (1, 2), "dotted": "a.b"}[op[3]]
            doc[key] = 1
        elif k == "bad_val":
            doc[op[3]] = {1, 2}
        return None

    # ---- observation --------------------------------------------------------
    def check_target(self, w, t, when):
        try:
            self._check_target(w, t, when)
        except Mismatch as m:
            if self.defect_possible.get(t):
                raise Mismatch("C05", "C05:buffered:multi-handle-lost-update",
                               "several handles of one document were used inside a buffered block: " + m.msg,
                               "C05:buffered:multi-handle-lost-update")
            raise

    def _check_target(self, w, t, when):
        want = self.model[t]
        with self.world.observing():
            st, val = read_json(w.path(t))
        if not ((st == "absent" and want == {}) or (st == "ok" and same(val, want))):
            raise Mismatch("C05", "C05:file-differs-from-dict",
                           f"world {w.mode} {when}: file of document {t} is {st} {str(val)[:140]}, a dict "
                           f"would hold {str(want)[:140]}", f"C05:file-differs-from-dict:{w.mode}")
        for hi in range(len(w.handles[t])):
            try:
                seen = w.doc(t, hi)()
            except Exception as e:  # noqa: BLE001
                raise Mismatch("C05", "C05:other-handle:raised", f"world {w.mode} {when}: handle {hi} of document "
                               f"{t} raised {type(e).__name__}: {e}")
            if not same(seen, want):
                raise Mismatch("C05", "C05:other-handle-differs",
                               f"world {w.mode} {when}: handle {hi} of document {t} shows {str(seen)[:140]}, a "
                               f"dict would hold {str(want)[:140]}", f"C05:other-handle-differs:{w.mode}")

    def check_all(self, w, when):
        for t in range(self.sc["ntargets"]):
            self.check_target(w, t, when)

    def file_view(self, w):
        with self.world.observing():
            v = {}
            for t in range(self.sc["ntargets"]):
                st, val = read_json(w.path(t))
                v[t] = None if st == "absent" or (st == "ok" and val == {}) else (st, val)
            v["stray"] = [r for r in snapshot(w.pp) if r.rsplit("/", 1)[-1].startswith("._")]
        return v

    def compare(self, va, vb, na, nb, when):
        """The set of document files and their parsed contents must agree across worlds."""
        for key in va:
            a, b = va[key], vb[key]
            eq = (a == b) if key == "stray" or a is None or b is None else (a[0] == b[0] and same(a[1], b[1]))
            if not eq and key in getattr(self, "multi_targets", ()):
                raise Mismatch("C05", "C05:buffered:multi-handle-lost-update",
                               f"several handles of one document were used inside a buffered block; {when}: "
                               f"worlds {na} and {nb} differ in {key}: {str(a)[:120]} vs {str(b)[:120]}",
                               "C05:buffered:multi-handle-lost-update")
            if not eq:
                raise Mismatch("C05", "C05:buffered-differs-from-unbuffered",
                               f"{when}: worlds {na} and {nb} differ in {key}: {str(a)[:120]} vs {str(b)[:120]}",
                               f"C05:buffered-differs-from-unbuffered:{na}-vs-{nb}")

    # ---- stale-handle histories (unbuffered scenarios only) ----------------------
    def x_remove_reinit(self, op, w):
        t, h = op[1], op[2]
        job = w.handles[t][h]
        job.remove()
        # the same Job object must hand out a fresh, empty document afterwards
        job.doc["after_remove"] = 1
        w.handles[t] = [job] + [self.signac.Project(w.pp).open_job(w.sps[t])
                                for _ in range(len(w.handles[t]) - 1)]
        w.handles[t][0], w.handles[t][h] = w.handles[t][h], w.handles[t][0]
        self.model[t] = {"after_remove": 1}
        self.probe("remove_reinit")
        self.probe("stale_path")
        if w.depth():
            self.probe("remove_inside_block")
            if self.blk is not None:
                self.block_use(w, t, h, None)
                self.blk["simple"] = False
                self.block_coarse()
                import copy
                for hh in range(len(w.handles[t])):
                    self.blk["view"][(t, hh)] = copy.deepcopy(self.model[t])
            seen = job.doc()
            if not same(seen, self.model[t]):
                raise Mismatch("C05", "C05:remove-inside-block:document",
                               f"world {w.mode}: after {op} inside a buffered block the handle's document shows "
                               f"{str(seen)[:140]}, expected {self.model[t]}")
        else:
            self.check_target(w, t, f"after {op}")

    def x_rekey(self, op, w):
        t, h = op[1], op[2]
        job = w.handles[t][h]
        job.doc  # make sure the lazy document exists before the id changes
        job.sp["rk"] = op[3]
        w.sps[t] = {**w.sps[t], "rk": op[3]}
        others = [self.signac.Project(w.pp).open_job(w.sps[t]) for _ in range(len(w.handles[t]) - 1)]
        w.handles[t] = others[:h] + [job] + others[h:]
        self.probe("rekey")
        self.probe("stale_path")
        if w.depth():
            self.probe("rekey_inside_block")
            if self.blk is not None:
                self.block_use(w, t, h, None)
                # fresh handle objects, and the re-key flushes: which collection is flushed first at the end
                # is no longer tracked exactly
                self.blk["simple"] = False
                self.block_coarse()
            # the re-keying handle still reads what the block wrote so far
            seen = job.doc()
            if not same(seen, self.model[t]) and self.defect_possible.get(t):
                # the re-key flushes the buffer: with several handles of this document used in the block the
                # dependency's flush defect (open finding) may strike right here
                raise Mismatch("C05", "C05:buffered:multi-handle-lost-update",
                               f"several handles of one document were used inside a buffered block: after {op} "
                               f"the handle's document shows {str(seen)[:140]}, a dict would hold "
                               f"{str(self.model[t])[:140]}", "C05:buffered:multi-handle-lost-update")
            if not same(seen, self.model[t]):
                raise Mismatch("C05", "C05:rekey-inside-block:document-lost",
                               f"world {w.mode}: after {op} inside a buffered block the handle's document shows "
                               f"{str(seen)[:140]}, a dict would hold {str(self.model[t])[:140]}")
        else:
            self.check_target(w, t, f"after {op}")

    def x_probe_none_over_nested(self, op, w):
        t = op[1]
        if len(w.handles[t]) < 2:
            return
        a, b = w.doc(t, 0), w.doc(t, 1)
        a["pn"] = {"z": 0}
        b()  # the second handle now holds the nested value in memory
        a["pn"] = None
        seen = b()
        self.model[t]["pn"] = None
        if not same(seen, self.model[t]):
            raise Mismatch("C05", "C05:other-handle:none-over-nested-stale",
                           f"handle 1 of document {t} still shows {str(seen)[:100]} after handle 0 replaced the "
                           f"nested mapping under 'pn' by None (file holds null)",
                           "C05:other-handle:none-over-nested-stale")

    def x_probe_type_flip(self, op, w):
        t = op[1]
        if len(w.handles[t]) < 2:
            return
        a, b = w.doc(t, 0), w.doc(t, 1)
        a["pt"] = 1
        b()
        a["pt"] = True
        seen = b()
        self.model[t]["pt"] = True
        if not same(seen, self.model[t]):
            raise Mismatch("C05", "C05:other-handle:type-flip-stale",
                           f"handle 1 of document {t} still shows {str(seen)[:100]} after handle 0 replaced 1 by "
                           f"True under 'pt' (file holds true)", "C05:other-handle:type-flip-stale")


class _Skip(Exception):
    pass

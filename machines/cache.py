"""Engine `cache` (C08): the state point cache is transparent; update_cache makes it exact.

Histories of {init job, remove job, re-key job, update_cache, restart session,
delete cache file, touch jobs through the live session} over <= 8 state points.
After every step the project is observed twice in fresh sessions - with the
persistent cache file as it is and with the file hidden - and both observations
must equal the model and each other.  After update_cache() returns, the decoded
file must be exactly {id: state point} of the workspace and an immediate second
call (same session and fresh session) must report nothing to do.
update_cache's thread pool is a SimPool: width 1-4, seeded interleaving.
"""

import os

from machines.common import CACHE_REL, cid, norm, quiet, read_cache, same, viol
from machines.lifecycle import Mismatch
from simcore.driver import EngineBase, generic_shrink
from simcore.sched import SimPool, install_locks, install_pools
from simcore.world import O, SimWorld

KEYS = "ab"
VALS = [0, 1, 2, "x", 1.5, None, True, ""]


def gen_sp(rng):
    if rng.random() < 0.04:
        return {}  # the empty state point is a job like any other
    sp = {k: rng.choice(VALS) for k in rng.sample(KEYS, rng.randrange(1, 3))}
    if rng.random() < 0.2:
        sp["n"] = {"k": rng.choice(VALS)}
    return sp


def _flat(sp, prefix=""):
    out = {}
    for k, v in sp.items():
        if isinstance(v, dict):
            out.update(_flat(v, prefix + k + "."))
        else:
            out[prefix + k] = v
    return out


def match(sp, flt):
    sp = _flat(sp)
    for k, want in flt.items():
        if isinstance(want, dict):
            (opn, arg), = want.items()
            if opn == "$exists":
                if (k in sp) != arg:
                    return False
            elif opn == "$gt":
                v = sp.get(k)
                if isinstance(v, bool) or not isinstance(v, (int, float)) or not v > arg:
                    return False
        else:
            if k not in sp:
                return False
            v = sp[k]
            # the index compares like Python does (1, 1.0 and True are the same key)
            if v != want:
                return False
    return True


FILTERS = [{"a": 1}, {"b": "x"}, {"a": {"$exists": True}}, {"b": {"$exists": False}}, {"n.k": 2}]
# queries that read the job documents as well (a different index-building path: the state points still
# come from the cache, the documents from the files)
DOC_FILTERS = [{"doc.t": 1}, {"doc.t": {"$exists": True}}, {"a": 1, "doc.t": {"$exists": False}}]


def match_full(sp, doc, flt):
    spf = {k: v for k, v in flt.items() if not k.startswith("doc.")}
    df = {k[4:]: v for k, v in flt.items() if k.startswith("doc.")}
    return match(sp, spf) and match(doc, df)


class Engine(EngineBase):
    def budget(self, tier):
        return (2700, 55.0) if tier == "quick" else (70000, 900.0)

    def rule(self):
        return ("seeded histories (<= 40 steps) of init / remove / re-key / update_cache / restart / delete "
                "cache file / open-all / document write over <= 8 state points (refused re-keys included; open by full id and by "
                "1-3 character abbreviations), pool width 1-4 with seeded interleaving of the "
                "cache-filling tasks; every observation (ids, len, state points, 5 state point and 3 document queries, membership, "
                "abbreviated ids) taken with and without the cache file. distinct = "
                "(abstract state: ids in workspace, ids in cache file, ids in the live session's memory) and "
                "operation 3-grams; non-trivial = update_cache ran on a workspace that differed from the file")

    def generate(self, rng, tier):
        knobs = {"listing": rng.choice(["shuffle", "sorted", "reverse"]), "chunk": rng.choice(["none", "split2"]),
                 "clock": "inc", "pool": rng.randrange(1, 5), "policy": rng.choice(["random", "pct"]),
                 # the documented configuration key for the cache-miss warning (None: not set)
                 "miss_threshold": rng.choice([None, None, None, 1, 3, 500]), "fd_rmtree": rng.random() < 0.5}
        n = rng.randrange(5, 40)
        pool = [gen_sp(rng) for _ in range(8)]
        ops = []
        for _ in range(n):
            k = rng.choice(["init"] * 5 + ["remove"] * 2 + ["rekey"] * 2 + ["update_cache"] * 4
                           + ["restart"] * 3 + ["rm_cache", "open_all", "doc"])
            if k == "init":
                ops.append([k, rng.choice(pool)])
            elif k == "remove":
                ops.append([k, rng.randrange(100)])
            elif k == "doc":
                ops.append([k, rng.randrange(100), rng.choice([0, 1, 1, "x"])])
            elif k == "rekey":
                ops.append([k, rng.randrange(100), rng.choice(KEYS + "c"), rng.choice(VALS),
                            rng.choice(["item", "item", "assign", "update"])])
            else:
                ops.append([k])
        return {"knobs": knobs, "ops": ops}

    def sample(self, scenario, result):
        return {"ops": scenario["ops"][:30], "knobs": scenario["knobs"], "executed": result.get("executed")}

    def stubs(self):
        return super().stubs() + ["ThreadPool -> SimPool (thread-actors under the seeded scheduler)",
                                  "RLock -> SimRLock"]

    def execute(self, sc, ctx):
        import signac

        install_locks()
        install_pools(width=sc["knobs"].get("pool", 2), policy=sc["knobs"].get("policy", "random"))
        res = {"violations": [], "keys": [], "stats": {"faults": {}, "probes": {}}, "nontrivial": False}
        root = os.path.join(ctx.scratch, "w")
        with SimWorld(root, seed=sc.get("seed", 0), knobs=sc["knobs"]) as world:
            run = Run(sc, world, signac)
            try:
                run.go()
            except Mismatch as m:
                res["violations"].append(viol(m.prop, m.vclass, m.msg, m.fp))
            res["executed"] = run.executed
            res["keys"] = run.keys
            res["ikeys"] = sorted(SimPool.interleavings)
            res["nontrivial"] = run.nontrivial
            res["stats"]["probes"] = run.probes
            res["stats"]["faults"] = {"restart": run.probes.get("restart", 0),
                                      "cache_file_deleted": run.probes.get("rm_cache", 0),
                                      "stale_cache_observed": run.probes.get("stale_obs", 0),
                                      "pool_interleavings": len(SimPool.interleavings)}
            res["digest"] = world.digest()
            res["stats"]["steps"] = world.seq
            res["stats"]["sim_ms"] = world.clock_ms - 1_000_000_000_000
        return res


class Run:
    def __init__(self, sc, world, signac):
        self.sc, self.world, self.signac = sc, world, signac
        self.pp = world.p("proj")
        self.proj = signac.init_project(self.pp)
        if sc["knobs"].get("miss_threshold") is not None:
            with world.observing():
                with O.io_open(os.path.join(self.pp, ".signac", "config"), "ab") as f:
                    f.write(b"statepoint_cache_miss_warning_threshold = %d\n" % sc["knobs"]["miss_threshold"])
            self.proj = signac.Project(self.pp)
        # a second long-lived session on the same project (its in-memory cache goes stale independently)
        self.sessions = [self.proj, signac.Project(self.pp)]
        self.model = {}
        self.ever = {}  # every state point that ever existed (membership is asked for these too)
        self.docs = {}  # id -> job document (only jobs whose document was written)
        self.probes = {}
        self.keys = []
        self.executed = 0
        self.nontrivial = False
        self.grams = []

    def probe(self, k):
        self.probes[k] = self.probes.get(k, 0) + 1

    def go(self):
        for i, op in enumerate(self.sc["ops"]):
            # operations alternate between the two sessions in a seeded pattern
            self.cur = (i * 7 + len(op) + self.sc.get("seed", 0)) % 3 == 0
            self.proj = self.sessions[1 if self.cur else 0]
            try:
                getattr(self, "op_" + op[0])(op)
            except Mismatch:
                raise
            except Exception as e:  # noqa: BLE001
                # an operation the model expects to succeed (on this workspace) raised: with a stale or
                # deleted cache the same history must not end differently
                raise Mismatch("C08", "C08:operation-raised",
                               f"{op} raised {type(e).__name__}: {str(e)[:160]} although the workspace allows it "
                               f"(model: {sorted(x[:6] for x in self.model)})",
                               f"C08:operation-raised:{op[0]}:{type(e).__name__}")
            self.executed = i + 1
            self.grams.append(op[0])
            if len(self.grams) >= 3:
                self.keys.append("g:" + ">".join(self.grams[-3:]))
            self.observe(op)

    def pick(self, n):
        ids = sorted(self.model)
        return ids[n % len(ids)] if ids else None

    def op_init(self, op):
        self.proj.open_job(op[1]).init()
        self.model[cid(op[1])] = norm(op[1])
        self.ever[cid(op[1])] = norm(op[1])

    def op_remove(self, op):
        jid = self.pick(op[1])
        if jid is None:
            return
        self.proj.open_job(id=jid).remove()
        del self.model[jid]
        self.docs.pop(jid, None)

    def op_doc(self, op):
        jid = self.pick(op[1])
        if jid is None:
            return
        self.proj.open_job(id=jid).doc["t"] = op[2]
        self.docs[jid] = {"t": op[2]}
        self.probe("doc_written")

    def op_rekey(self, op):
        jid = self.pick(op[1])
        if jid is None:
            return
        new = {**self.model[jid], op[2]: op[3]}
        route = op[4] if len(op) > 4 else "item"
        job = self.proj.open_job(id=jid)

        def go():
            if route == "assign":
                job.statepoint = dict(new)
            elif route == "update":
                job.update_statepoint({op[2]: op[3]}, overwrite=True)
            else:
                job.sp[op[2]] = op[3]

        if cid(new) == jid:
            return
        old_v = self.model[jid].get(op[2], object())
        if old_v == op[3] and type(old_v) is not type(op[3]):
            # 1 -> True, 1 -> 1.0: the dependency's in-place update keeps the old value for some routes
            # (an open finding of C04, where it is reported); not a cache question
            return
        if cid(new) in self.model:
            # the destination exists: the re-key is refused and neither job (nor what any session
            # knows about them) changes
            try:
                go()
            except self.signac.errors.DestinationExistsError:
                self.probe("rekey_refused")
                return
            raise Mismatch("C08", "C08:rekey-onto-existing-job-not-refused",
                           f"re-keying {jid[:8]} to {new} (an existing job) did not raise")
        go()
        del self.model[jid]
        if jid in self.docs:
            self.docs[cid(new)] = self.docs.pop(jid)
        self.model[cid(new)] = norm(new)
        self.ever[cid(new)] = norm(new)

    def op_restart(self, op):
        self.proj = self.signac.Project(self.pp)
        self.sessions[1 if self.cur else 0] = self.proj
        self.probe("restart")

    def op_rm_cache(self, op):
        with self.world.observing():
            p = os.path.join(self.pp, CACHE_REL)
            if os.path.exists(p):
                O.unlink(p)
                self.probe("rm_cache")

    def op_open_all(self, op):
        for jid in sorted(self.model):
            self.proj.open_job(id=jid).statepoint()

    def op_update_cache(self, op):
        P = "C08"
        before = read_cache(self.pp)
        differed = before[0] != "ok" or set(before[1]) != set(self.model)
        ret = self.proj.update_cache()
        st, content = read_cache(self.pp)
        if differed:
            self.nontrivial = True
        if st != "ok":
            raise Mismatch(P, "C08:update_cache:file-not-written",
                           f"after update_cache() (returned {ret}) the cache file is {st}; workspace has "
                           f"{len(self.model)} jobs", "C08:update_cache:file-" + st)
        if set(content) != set(self.model):
            raise Mismatch(P, "C08:update_cache:id-set-not-exact",
                           f"after update_cache() (returned {ret}) the cache file lists "
                           f"{sorted(x[:6] for x in content)} but the workspace holds "
                           f"{sorted(x[:6] for x in self.model)} (file before the call: "
                           f"{before[0]} {sorted(x[:6] for x in before[1]) if before[0] == 'ok' else ''})",
                           "C08:update_cache:stale-file-" + ("superset" if set(content) > set(self.model)
                                                             else "subset" if set(content) < set(self.model)
                                                             else "other"))
        for jid, sp in content.items():
            if not same(sp, self.model[jid]):
                raise Mismatch(P, "C08:update_cache:wrong-statepoint",
                               f"cache maps {jid[:8]} to {sp}, true state point {self.model[jid]}")
        # an immediate second call: nothing to do (same session, then a fresh one)
        snap1 = self._cache_bytes()
        r2 = self.proj.update_cache()
        if r2 is not None or self._cache_bytes() != snap1:
            raise Mismatch(P, "C08:update_cache:second-call-not-noop",
                           f"second update_cache() in the same session returned {r2}"
                           f"{' and rewrote the file' if self._cache_bytes() != snap1 else ''}")
        r3 = self.signac.Project(self.pp).update_cache()
        st3, content3 = read_cache(self.pp)
        if r3 is not None or st3 != "ok" or set(content3) != set(self.model):
            raise Mismatch(P, "C08:update_cache:fresh-second-call-not-noop",
                           f"update_cache() in a fresh session right after returned {r3}; file {st3}")
        self.probe("update_cache")

    @quiet
    def _cache_bytes(self):
        with O.io_open(os.path.join(self.pp, CACHE_REL), "rb") as f:
            return f.read()

    # ------------------------------------------------------------------
    def observe(self, op):
        with self.world.observing():
            with_file = self._view("with cache file")
            p = os.path.join(self.pp, CACHE_REL)
            hidden = False
            if os.path.exists(p):
                O.rename(p, p + ".hidden")
                hidden = True
                st, content = read_cache_hidden(p + ".hidden")
                if st == "ok" and set(content) != set(self.model):
                    self.probe("stale_obs")
            try:
                without = self._view("without cache file")
            finally:
                if hidden:
                    O.rename(p + ".hidden", p)
            for name, view in (("with", with_file), ("without", without)):
                if view != self._expected():
                    diff = [k for k in view if view[k] != self._expected().get(k)]
                    raise Mismatch("C08", "C08:observation-differs-from-model",
                                   f"after {op}: fresh session {name} the cache file disagrees with the "
                                   f"workspace in {diff}: got {[str(view[k])[:120] for k in diff][:2]}, "
                                   f"expected {[str(self._expected()[k])[:120] for k in diff][:2]}",
                                   f"C08:observation-{name}-file:{diff[0] if diff else ''}")
            # the live sessions too (their in-memory caches may hold removed jobs) - but not after every
            # step: looking at a session fills its in-memory cache, and update_cache() must also be met
            # by sessions that have not yet seen the jobs added since they started
            import random
            coin = random.Random(f"{self.sc.get('seed', 0)}:live:{self.executed}")
            for si, sess in enumerate(self.sessions):
                if coin.random() < 0.6:
                    continue
                live = self._view(f"live session {si}", sess)
                if live != self._expected():
                    diff = [k for k in live if live[k] != self._expected().get(k)]
                    raise Mismatch("C08", "C08:live-session-differs-from-model",
                                   f"after {op}: live session {si} disagrees in {diff}: "
                                   f"{[str(live[k])[:120] for k in diff][:2]}", f"C08:live-session:{diff[0]}")
        st, content = read_cache(self.pp)
        cached = sorted(x[:4] for x in content) if st == "ok" else st
        self.keys.append(f"s:{sorted(x[:4] for x in self.model)}|{cached}|{sorted(x[:4] for x in self.proj._sp_cache)}")

    def _expected(self):
        M = self.model
        out = {"ids": sorted(M), "len": len(M),
               "sps": {j: __import__('model.canon', fromlist=['canon']).canon(M[j]) for j in sorted(M)}}
        for i, f in enumerate(FILTERS):
            out[f"find{i}"] = sorted(j for j in M if match(M[j], f))
        for i, f in enumerate(DOC_FILTERS):
            out[f"dfind{i}"] = sorted(j for j in M if match_full(M[j], self.docs.get(j, {}), f))
        out["contains"] = {j: j in M for j in sorted(self.ever)}
        # open by abbreviated id: decided by the workspace alone
        pre = {}
        for p in self._prefixes():
            cand = [x for x in M if x.startswith(p)]
            pre[p] = cand[0] if len(cand) == 1 else "LookupError" if cand else "KeyError"
        out["prefix"] = pre
        return out

    def _prefixes(self):
        """Abbreviations asked for: 1, 2 and 3 leading characters of every id that ever existed."""
        return sorted({j[:L] for j in self.ever for L in (1, 2, 3)})

    def _view(self, label, proj=None):
        from model.canon import canon
        try:
            proj = proj or self.signac.Project(self.pp)
            out = {"ids": sorted(j.id for j in proj), "len": len(proj)}

            def by_id():
                sps = {}
                for jid in sorted(self.model):
                    sps[jid] = canon(proj.open_job(id=jid).statepoint())
                out["sps"] = sps

            def queries():
                for i, f in enumerate(FILTERS):
                    out[f"find{i}"] = sorted(j.id for j in proj.find_jobs(f))
                for i, f in enumerate(DOC_FILTERS):
                    out[f"dfind{i}"] = sorted(j.id for j in proj.find_jobs(f))

            # opening every job by id fills the session's memory, after which the queries never miss the
            # cache: the two halves therefore come in either order
            first, second = (by_id, queries) if (self.executed + len(label)) % 2 else (queries, by_id)
            first()
            second()
            out["contains"] = {j: proj.open_job(self.ever[j]) in proj for j in sorted(self.ever)}
            pre = {}
            for p in self._prefixes():
                try:
                    pre[p] = proj.open_job(id=p).id
                except KeyError:
                    pre[p] = "KeyError"
                except LookupError:
                    pre[p] = "LookupError"
            out["prefix"] = pre
            return out
        except Mismatch:
            raise
        except Exception as e:  # noqa: BLE001
            raise Mismatch("C08", "C08:observation-raised",
                           f"{label}: {type(e).__name__}: {str(e)[:200]}", f"C08:observation-raised:{type(e).__name__}")


def read_cache_hidden(path):
    import gzip
    import json
    try:
        with O.io_open(path, "rb") as f:
            return "ok", json.loads(gzip.decompress(f.read()).decode())
    except Exception:
        return "bad", None

#!/venv/bin/python
"""Replay self-test: for a set of mutants, find violations with the quick check (reduced budget) on a scratch
copy of /repo, then replay every reported file in a fresh interpreter and require the same violation class and
the same event-log digest; the same file replayed on the unchanged tree must report no violation.
Usage: replay.py [mutant patch names ...]   (default: one mutant per engine)"""
import glob
import json
import os
import re
import shutil
import subprocess
import sys

VERIF = os.path.dirname(os.path.dirname(os.path.abspath(__file__)))
DEFAULT = ["C02_prefix_substring", "C03_leave_backup_file", "C04_skip_jobs_loop", "C05_doc_setter_updates",
           "C08_no_removal_reconcile", "C09_repair_no_force", "C10_cache_in_place", "C11_move_swallows_oserror",
           "C12_makedirs_no_exist_ok", "C13_left_only_dirs_skipped", "C14_update_ge", "C15_selection_inverted",
           "C16_zip_startswith", "C17_obsolete_not_removed", "C20_name_dropped"]


def main():
    names = sys.argv[1:] or DEFAULT
    base = "/dev/shm" if os.path.isdir("/dev/shm") else "/tmp"
    bad = 0
    for name in names:
        patch = os.path.join(VERIF, "selftest", "mutants", name + ".patch")
        prop = name.split("_")[0]
        d = os.path.join(base, "sgv-mut", f"replay{os.getpid()}")
        shutil.rmtree(d, ignore_errors=True)
        shutil.copytree("/repo", d, ignore=shutil.ignore_patterns(".git", "__pycache__", "doc", "benchmarks"))
        try:
            subprocess.run(["patch", "-p1", "-s", "-d", d, "-i", patch], check=True)
            env = dict(os.environ, VERIF_REPO=d)
            r = subprocess.run([sys.executable, os.path.join(VERIF, "checks", "run.py"), "--property", prop,
                                "--tier", "quick", "--no-evidence", "--count", "400"], capture_output=True,
                               text=True, env=env, cwd=VERIF)
            files = re.findall(r"VIOLATION property=\S+ replay=(\S+)", r.stdout)
            if not files:
                print(f"{name}: no violation found within the reduced budget (not a replay failure)")
                continue
            ok = 0
            for f in files:
                a = subprocess.run([sys.executable, os.path.join(VERIF, "checks", "run.py"), "--replay", f],
                                   capture_output=True, text=True, env=env, cwd=VERIF).stdout
                b = subprocess.run([sys.executable, os.path.join(VERIF, "checks", "run.py"), "--replay", f],
                                   capture_output=True, text=True, cwd=VERIF)
                same = "same_class=True same_event_digest=True" in a
                clean = b.returncode == 0 and "no violation" in b.stdout
                ok += 1 if (same and clean) else 0
                if not (same and clean):
                    bad += 1
                    print(f"  {name}: {os.path.basename(f)} replay-on-mutant: {a.splitlines()[1:2]} ; "
                          f"on unchanged tree exit={b.returncode}")
            print(f"{name}: {ok}/{len(files)} violation files replay exactly (and are clean on the unchanged tree)",
                  flush=True)
        finally:
            shutil.rmtree(d, ignore_errors=True)
    return 1 if bad else 0


if __name__ == "__main__":
    sys.exit(main())

#!/venv/bin/python
"""Sensitivity self-test: every mutant in selftest/mutants/<Cxx>_*.patch must be
caught (VIOLATION, exit 1) by that property's quick check run against a scratch
copy of /repo with the patch applied.  Usage: sensitivity.py [Cxx ...]"""
import glob
import json
import os
import shutil
import subprocess
import sys
import time

VERIF = os.path.dirname(os.path.dirname(os.path.abspath(__file__)))
REPO = "/repo"


def scratch():
    base = "/dev/shm" if os.path.isdir("/dev/shm") else "/tmp"
    d = os.path.join(base, "sgv-mut")
    os.makedirs(d, exist_ok=True)
    return d


def run_one(patch, tier="quick", extra_env=None):
    prop = os.path.basename(patch).split("_")[0]
    d = os.path.join(scratch(), f"m{os.getpid()}")
    shutil.rmtree(d, ignore_errors=True)
    shutil.copytree(REPO, d, ignore=shutil.ignore_patterns(".git", "__pycache__", "*.pyc", "doc", "benchmarks"))
    try:
        r = subprocess.run(["patch", "-p1", "-s", "-d", d, "-i", patch], capture_output=True, text=True)
        if r.returncode != 0:
            return prop, "patch-failed", r.stdout + r.stderr, 0.0
        env = dict(os.environ, VERIF_REPO=d)
        if extra_env:
            env.update(extra_env)
        t = time.time()
        r = subprocess.run([sys.executable, os.path.join(VERIF, "checks", "run.py"), "--property", prop,
                            "--tier", tier, "--no-evidence"], capture_output=True, text=True, env=env,
                           cwd=VERIF, timeout=3000)
        dt = time.time() - t
        out = r.stdout + r.stderr
        if r.returncode == 1 and "VIOLATION property=" + prop in out:
            return prop, "killed", out, dt
        if r.returncode == 0:
            return prop, "SURVIVED", out, dt
        return prop, f"exit-{r.returncode}", out, dt
    finally:
        shutil.rmtree(d, ignore_errors=True)


def main():
    want = sys.argv[1:]
    patches = sorted(glob.glob(os.path.join(VERIF, "selftest", "mutants", "*.patch")))
    patches += sorted(glob.glob(os.path.join(VERIF, "seeded", "*", "patch.diff")))
    results = []
    bad = 0
    for p in patches:
        name = os.path.basename(p) if p.endswith(".patch") else os.path.basename(os.path.dirname(p))
        prop = name.split("_")[0]
        if want and prop not in want and name not in want:
            continue
        if not p.endswith(".patch"):
            # seeded change: property from meta.json
            meta = json.load(open(os.path.join(os.path.dirname(p), "meta.json")))
            if meta.get("expect") == "harmless":
                print(f"{name}: skipped (no longer breaks the property on the current tree, see meta.json)")
                continue
            prop = meta.get("check_property", meta["property"])
            tmp = os.path.join(scratch(), f"{prop}_{name}.patch")
            shutil.copy(p, tmp)
            p = tmp
        prop, verdict, out, dt = run_one(p)
        lines = [l for l in out.splitlines() if l.startswith(("VIOLATION", "  class=", "HARNESS", "NOTE"))][:4]
        print(f"{name}: {verdict} ({dt:.0f}s) " + " | ".join(lines)[:300], flush=True)
        results.append({"mutant": name, "property": prop, "verdict": verdict, "wall_s": round(dt, 1)})
        if verdict != "killed":
            bad += 1
    os.makedirs(os.path.join(VERIF, "out"), exist_ok=True)
    with open(os.path.join(VERIF, "out", "sensitivity.json"), "w") as f:
        json.dump(results, f, indent=1)
    return 1 if bad else 0


if __name__ == "__main__":
    sys.exit(main())

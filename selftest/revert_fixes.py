"""selftest/revert_fixes.py [commit ...]: "a fixed entry suppresses nothing".

For every `fix:` commit of /repo recorded in known_findings.json the reverse of that commit (source files
only) is applied to a scratch copy of /repo's working tree and the quick check of the recorded property is
run against the copy: it must report the violation again (exit 1 with a VIOLATION line).  A reverse patch
that no longer applies (a later fix rewrote the same lines) is reported as such and is no failure.
Nothing is changed in /repo.
"""
import json
import os
import subprocess
import sys

VERIF = os.path.dirname(os.path.dirname(os.path.abspath(__file__)))
sys.path.insert(0, os.path.join(VERIF, "selftest"))
import sensitivity  # noqa: E402


def main():
    want = sys.argv[1:]
    k = json.load(open(os.path.join(VERIF, "known_findings.json")))
    entries = k["findings"] if isinstance(k, dict) else k
    seen = set()
    bad = 0
    for e in entries:
        if e.get("status") != "fixed":
            continue
        key = (e["commit"], e["property"])
        if key in seen or (want and e["commit"] not in want):
            continue
        seen.add(key)
        c = e["commit"]
        r = subprocess.run(["git", "-C", "/repo", "diff", c, c + "^", "--", "signac"], capture_output=True, text=True)
        if r.returncode != 0 or not r.stdout.strip():
            print(f"{c} {e['property']}: no source diff ({r.stderr.strip()[:80]})")
            continue
        tmp = os.path.join(sensitivity.scratch(), f"{e['property']}_revert_{c}.patch")
        open(tmp, "w").write(r.stdout)
        try:
            prop, verdict, out, dt = sensitivity.run_one(tmp)
        finally:
            os.unlink(tmp)
        lines = [ln.strip() for ln in out.splitlines() if ln.startswith("VIOLATION") or ln.strip().startswith("class=")]
        print(f"{c} {prop}: {verdict} ({dt:.0f}s) " + " | ".join(lines[:4]), flush=True)
        if verdict not in ("killed", "patch-failed"):
            bad += 1
    print(f"reverted fixes not reported again: {bad}")
    return 1 if bad else 0


if __name__ == "__main__":
    sys.exit(main())

#!/venv/bin/python
"""Determinism self-test.  For every property (or those named), run the same batch of scenarios
  A: 16 workers      B: 16 workers again      C: 3 workers (other process layout, other hash seeds)
  D: 16 workers under a different PYTHONHASHSEED base
and compare, per run index, the event-log digest (A = B exactly; A vs C and A vs D reported) and the
verdict (violation classes; must be equal in all four).  Usage: determinism.py [--count N] [Cxx ...]"""
import glob
import json
import os
import subprocess
import sys
import tempfile

VERIF = os.path.dirname(os.path.dirname(os.path.abspath(__file__)))


def run(prop, count, workers, tag, base, tmp):
    rec = os.path.join(tmp, f"{prop}.{tag}")
    env = dict(os.environ, VERIF_RECORD_DIGESTS=rec, VERIF_HASHSEED_BASE=str(base),
               VERIF_SEED=os.environ.get("VERIF_SEED", "7"))
    subprocess.run([sys.executable, os.path.join(VERIF, "checks", "run.py"), "--property", prop, "--tier", "quick",
                    "--no-evidence", "--count", str(count), "--workers", str(workers)],
                   env=env, cwd=VERIF, capture_output=True, text=True)
    out = {}
    for f in glob.glob(rec + ".*"):
        for line in open(f):
            i, dig, classes = line.rstrip("\n").split("\t")
            out[int(i)] = (dig, classes)
    return out


def main():
    args = sys.argv[1:]
    count = 200
    if "--count" in args:
        k = args.index("--count")
        count = int(args[k + 1])
        del args[k:k + 2]
    props = args or [c["property_id"] for c in json.load(open(os.path.join(VERIF, "MANIFEST.json")))["checks"]]
    bad = 0
    report = {}
    with tempfile.TemporaryDirectory() as tmp:
        for p in props:
            a = run(p, count, 16, "A", 0, tmp)
            b = run(p, count, 16, "B", 0, tmp)
            c = run(p, count, 3, "C", 0, tmp)
            d = run(p, count, 16, "D", 1, tmp)
            n = len(a)
            same_ab = sum(1 for i in a if b.get(i) == a[i])
            dig_ac = sum(1 for i in a if i in c and c[i][0] == a[i][0])
            dig_ad = sum(1 for i in a if i in d and d[i][0] == a[i][0])
            # a layout that did not get through the batch within the wall-clock budget (3 workers on a busy
            # machine) has fewer runs: verdicts are compared on the indices every layout executed
            common = [i for i in a if i in b and i in c and i in d]
            ver = sum(1 for i in common if all(x[i][1] == a[i][1] for x in (b, c, d)))
            ok = n > 0 and same_ab == n and ver == len(common) and len(common) >= n // 2
            bad += 0 if ok else 1
            report[p] = {"runs": n, "digest_equal_same_layout": same_ab, "digest_equal_other_layout": dig_ac,
                         "digest_equal_other_hashseed": dig_ad, "verdict_equal_all": ver,
                         "runs_executed_by_every_layout": len(common)}
            print(f"{p}: runs={n} A==B {same_ab}/{n}  digest A==C {dig_ac}/{n}  digest A==D {dig_ad}/{n}  "
                  f"verdicts equal {ver}/{len(common)} (runs executed by every layout)  "
                  f"{'OK' if ok else 'NONDETERMINISTIC'}", flush=True)
    os.makedirs(os.path.join(VERIF, "out"), exist_ok=True)
    json.dump(report, open(os.path.join(VERIF, "out", "determinism.json"), "w"), indent=1)
    return 1 if bad else 0


if __name__ == "__main__":
    sys.exit(main())

"""selftest/patches_apply.py: every hand-written mutant and every seeded change must still apply to /repo's
working tree (a fix commit that rewrites the same lines silently turns a regression test into 'patch-failed').
Seeded changes marked `expect: harmless` are exempt.  Exit 1 and one line per stale patch otherwise."""
import glob
import json
import os
import subprocess
import sys

VERIF = os.path.dirname(os.path.dirname(os.path.abspath(__file__)))
bad = 0
for f in sorted(glob.glob(os.path.join(VERIF, "seeded", "*", "patch.diff")) +
                glob.glob(os.path.join(VERIF, "selftest", "mutants", "*.patch"))):
    meta = os.path.join(os.path.dirname(f), "meta.json")
    if f.endswith("patch.diff") and json.load(open(meta)).get("expect") == "harmless":
        continue
    r = subprocess.run(["patch", "-p1", "--dry-run", "-s", "-f", "-d", "/repo", "-i", f], capture_output=True, text=True)
    if r.returncode != 0:
        bad += 1
        print("STALE", os.path.relpath(f, VERIF))
print(f"stale patches: {bad}")
sys.exit(1 if bad else 0)

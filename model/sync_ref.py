"""Reference semantics of sync_jobs / sync_projects on plain data (DESIGN.md appendix A.3).

Written from the documentation and the property statements, not from sync.py.
A project is {"doc": dict, "jobs": {id: job}}; a job is
{"sp": dict, "doc": dict, "files": {relative path: (bytes, mtime_ms)}}.
Directories exist implicitly through the files below them.
"""

import copy
import re

SP_FILE = "signac_statepoint.json"
DOC_FILE = "signac_job_document.json"


class Conflict(Exception):
    def __init__(self, kind, what):
        super().__init__(f"{kind}: {what}")
        self.kind = kind
        self.what = what


def excluded(name, patterns):
    return any(re.match(p, name) for p in patterns)


def verdict(strategy, rel, src_file, dst_file):
    """Independent verdict of a file strategy spec for one differing file."""
    if strategy == "always":
        return True
    if strategy == "never":
        return False
    if strategy == "update":
        return src_file[1] > dst_file[1]
    if isinstance(strategy, list) and strategy[0] == "custom":
        return rel in strategy[1]
    raise ValueError(strategy)


def detected(src_file, dst_file, deep):
    """Does the comparison notice that the two files differ?"""
    if src_file[0] == dst_file[0]:
        return False
    if deep:
        return True
    return len(src_file[0]) != len(dst_file[0]) or src_file[1] != dst_file[1]


def _children(files, subdir):
    """Names directly below subdir: {name: 'f' | 'd'}"""
    out = {}
    pre = subdir + "/" if subdir else ""
    for rel in files:
        if not rel.startswith(pre):
            continue
        rest = rel[len(pre):]
        if "/" in rest:
            out[rest.split("/", 1)[0]] = "d"
        else:
            out.setdefault(rest, "f")
    return out


def sync_files(src_files, dst_files, opts, conflicts, subdir="", extra_exclude=()):
    """Expected destination files after a job-level file sync (mutates and returns dst_files)."""
    patterns = list(opts.get("exclude") or []) + list(extra_exclude)
    strategy = opts.get("strategy")
    recursive = opts.get("recursive", False)
    deep = opts.get("deep", False)
    pre = subdir + "/" if subdir else ""
    s_ch = _children(src_files, subdir)
    d_ch = _children(dst_files, subdir)
    for name, kind in sorted(s_ch.items()):
        rel = pre + name
        if name not in d_ch:
            if excluded(name, patterns):
                continue
            if kind == "f":
                dst_files[rel] = (src_files[rel][0], None)
            elif recursive:
                for r, f in src_files.items():
                    if r.startswith(rel + "/"):
                        # entries (files and directories) matching an exclude pattern are never created (C15)
                        if not any(excluded(part, patterns) for part in r[len(rel) + 1:].split("/")):
                            dst_files[r] = (f[0], None)
        elif kind == "f" and d_ch[name] == "f":
            if excluded(name, patterns):
                continue
            if detected(src_files[rel], dst_files[rel], deep):
                if strategy is None:
                    conflicts.append(("FileSyncConflict", rel))
                elif verdict(strategy, rel, src_files[rel], dst_files[rel]):
                    dst_files[rel] = (src_files[rel][0], None)
        elif kind == "d" and d_ch[name] == "d":
            if recursive:
                sync_files(src_files, dst_files, opts, conflicts, rel, extra_exclude)
    return dst_files


def key_accepts(key_strategy, dotted):
    if key_strategy is None:
        return False
    if key_strategy[0] == "fn":
        return dotted in key_strategy[1]
    if key_strategy[0] == "regex":
        return re.match(key_strategy[1], dotted) is not None
    raise ValueError(key_strategy)


def merge_bykey(src, dst, key_strategy, skipped, root=""):
    for key, value in src.items():
        if key in dst:
            if dst[key] == value and type(dst[key]) is type(value):
                continue
            if dst[key] == value:
                continue
            if isinstance(value, dict) and isinstance(dst[key], dict):
                merge_bykey(value, dst[key], key_strategy, skipped, root + key + ".")
                continue
            if not key_accepts(key_strategy, root + key):
                skipped.append(root + key)
                continue
        dst[key] = copy.deepcopy(value)


def sync_doc(src_doc, dst_doc, doc_sync, conflicts):
    """Expected destination document (new object)."""
    out = copy.deepcopy(dst_doc)
    if doc_sync in ("NO_SYNC", "COPY"):
        return out
    if doc_sync == "update":
        for k, v in src_doc.items():
            out[k] = copy.deepcopy(v)
        return out
    if doc_sync == "custom_raise":
        # a user function that fails after a partial merge: the document must be rolled back
        if src_doc and src_doc != dst_doc:
            conflicts.append(("DocumentSyncConflict", ["zz"]))
        return out
    ks = None if doc_sync in (None, "ByKey") else doc_sync[1]
    skipped = []
    merge_bykey(src_doc, out, ks, skipped)
    if skipped and ks is None:
        conflicts.append(("DocumentSyncConflict", sorted(skipped)))
        return copy.deepcopy(dst_doc)
    return out


def sync_job(src_job, dst_job, opts, conflicts):
    """Expected destination job (new object) for sync_jobs(src, dst)."""
    out = copy.deepcopy(dst_job)
    extra = [SP_FILE] + ([] if opts.get("doc_sync") == "COPY" else [DOC_FILE])
    sync_files(src_job["files"], out["files"], opts, conflicts, "", extra)
    out["doc"] = sync_doc(src_job["doc"], out["doc"], opts.get("doc_sync"), conflicts)
    return out


def clone_job(src_job, opts):
    """A newly cloned job: everything except files matching an exclude pattern."""
    patterns = list(opts.get("exclude") or [])
    files = {r: (f[0], None) for r, f in src_job["files"].items()
             if r in (SP_FILE, DOC_FILE) or not any(excluded(part, patterns) for part in r.split("/"))}
    return {"sp": copy.deepcopy(src_job["sp"]), "doc": copy.deepcopy(src_job["doc"]), "files": files}


def sync_project(src, dst, opts, conflicts):
    """Expected destination project for sync_projects(src, dst) if the call returns."""
    out = copy.deepcopy(dst)
    out["doc"] = sync_doc(src["doc"], out["doc"], opts.get("doc_sync"), conflicts)
    sel = opts.get("selection")
    for jid, sj in sorted(src["jobs"].items()):
        if sel is not None and jid not in sel:
            continue
        if jid not in out["jobs"]:
            out["jobs"][jid] = clone_job(sj, opts)
        else:
            out["jobs"][jid] = sync_job(sj, out["jobs"][jid], opts, conflicts)
    return out

"""Independent canonical JSON text and job id.

Written from the property text (keys sorted at every level, ', ' / ': '
separators, ASCII escapes, floats via repr) and *not* from signac.job.calc_id.
Used by every oracle that needs "the id this state point must have" or "is this
state point file damaged".
"""

import hashlib
import math

_ESC = {'"': '\\"', "\\": "\\\\", "\n": "\\n", "\r": "\\r", "\t": "\\t",
        "\b": "\\b", "\f": "\\f"}


def _s(s):
    out = ['"']
    for ch in s:
        e = _ESC.get(ch)
        if e is not None:
            out.append(e)
            continue
        o = ord(ch)
        if 0x20 <= o < 0x7F:
            out.append(ch)
        elif o < 0x10000:
            out.append("\\u%04x" % o)
        else:
            o -= 0x10000
            out.append("\\u%04x\\u%04x" % (0xD800 | (o >> 10), 0xDC00 | (o & 0x3FF)))
    out.append('"')
    return "".join(out)


def canon(v):
    """Canonical JSON text of a JSON value (dict/list/tuple/str/int/float/bool/None)."""
    if v is None:
        return "null"
    if v is True:
        return "true"
    if v is False:
        return "false"
    t = type(v)
    if t is int:
        return str(v)
    if t is float:
        if math.isnan(v) or math.isinf(v):
            raise ValueError("not a JSON number")
        return repr(v)
    if t is str:
        return _s(v)
    if isinstance(v, (list, tuple)):
        return "[" + ", ".join(canon(x) for x in v) + "]"
    if isinstance(v, dict):
        for k in v:
            if type(k) is not str:
                raise TypeError("non-str key")
        return "{" + ", ".join(_s(k) + ": " + canon(v[k]) for k in sorted(v)) + "}"
    if hasattr(v, "keys") and hasattr(v, "__getitem__"):
        return canon({k: v[k] for k in v.keys()})
    if hasattr(v, "__iter__"):
        return canon(list(v))
    raise TypeError(f"not JSON: {type(v)!r}")


def cid(sp):
    """The id a state point must have."""
    return hashlib.md5(canon(sp).encode("ascii")).hexdigest()


def same(a, b):
    """Type-exact JSON value equality (1 != 1.0 != True != '1'; tuple == list)."""
    try:
        return canon(a) == canon(b)
    except (TypeError, ValueError):
        return False


def norm(v):
    """Plain JSON-normalised copy (tuples -> lists, mappings -> dict)."""
    if isinstance(v, dict):
        return {k: norm(x) for k, x in v.items()}
    if isinstance(v, (list, tuple)):
        return [norm(x) for x in v]
    if hasattr(v, "keys") and hasattr(v, "__getitem__") and not isinstance(v, (str, bytes)):
        return {k: norm(v[k]) for k in v.keys()}
    return v


def selfcheck():
    """Golden ids published in signac's documentation."""
    assert cid({"a": 0}) == "9bfd29df07674bc4aa960cf661b5acd2", cid({"a": 0})
    assert cid({}) == hashlib.md5(b"{}").hexdigest()
    assert canon({"b": [1, 2.0, True, None, "é"], "a": {"y": 1, "x": -0.0}}) == (
        '{"a": {"x": -0.0, "y": 1}, "b": [1, 2.0, true, null, "\\u00e9"]}'
    )
    return True

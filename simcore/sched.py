"""Seeded scheduler: baton-passing actors, SimRLock, SimPool.

Actors are real threads, but exactly one runs at a time and *who* runs next is
decided only by the scheduler's PRNG (or by an explicit recorded schedule).
Scheduling points are the seam calls of SimWorld.step() and lock operations.
"""

import hashlib
import threading

from .world import derive


class ActorFailed(Exception):
    pass


class Actor:
    __slots__ = ("name", "pid", "fn", "thread", "go", "done", "error", "result",
                 "waiting_for", "started", "steps", "prio")

    def __init__(self, name, pid, fn):
        self.name = name
        self.pid = pid
        self.fn = fn
        self.thread = None
        self.go = threading.Semaphore(0)
        self.done = False
        self.error = None
        self.result = None
        self.waiting_for = None
        self.started = False
        self.steps = 0
        self.prio = 0


class Scheduler:
    """Runs actors under a seeded policy.

    policy: 'random' (uniform over runnable), 'pct' (priorities with d-1 change
    points), or 'fixed' (an explicit list of actor names; when exhausted or the
    named actor is not runnable, falls back to the lowest-named runnable actor).
    """

    def __init__(self, world, seed, policy="random", schedule=None, pct_depth=2,
                 max_steps=20000):
        self.world = world
        self.rng = derive(seed, "sched")
        self.policy = policy
        self.fixed = list(schedule) if schedule is not None else None
        self.fixed_pos = 0
        self.actors = []
        self.by_thread = {}
        self.main = threading.Semaphore(0)
        self.taken = []  # the schedule actually taken (actor names)
        self.max_steps = max_steps
        self.pct_depth = pct_depth
        self._pct_points = None
        self.current = None
        self.hb = {}  # path -> list[(actor, kind)] for the happens-before fingerprint
        self.lock_blocks = 0
        self.deadlock = False

    # -- actors -------------------------------------------------------
    def spawn(self, name, fn, pid=None):
        a = Actor(name, pid if pid is not None else name, fn)
        self.actors.append(a)
        return a

    def spawn_live(self, name, fn, pid):
        """Add an actor while the loop is running (called by the running actor)."""
        a = Actor(name, pid, fn)
        t = threading.Thread(target=self._thread_main, args=(a,), daemon=True,
                             name="actor-" + name)
        a.thread = t
        t.start()
        self.by_thread[t.ident] = a
        a.started = True
        self.actors.append(a)
        return a

    def _thread_main(self, actor):
        actor.go.acquire()
        try:
            actor.result = actor.fn()
        except BaseException as e:  # noqa: BLE001 - recorded, not swallowed
            actor.error = e
        actor.done = True
        self.main.release()

    def current_actor(self):
        return self.by_thread.get(threading.get_ident())

    # -- called from actor threads -------------------------------------
    def yield_point(self, kind, rel):
        a = self.by_thread.get(threading.get_ident())
        if a is None:
            return None
        a.steps += 1
        self.main.release()
        a.go.acquire()
        if rel is not None:
            self.hb.setdefault(rel, []).append((a.name, kind))
            if kind in ("mkdir", "rmdir", "unlink", "rename", "symlink", "link", "open-w"):
                parent = rel.rsplit("/", 1)[0] if "/" in rel else ""
                self.hb.setdefault(parent + "/", []).append((a.name, kind))
        return a.name

    def block_on(self, lock):
        """Current actor cannot take `lock`; give the baton away until it can."""
        a = self.by_thread.get(threading.get_ident())
        a.waiting_for = lock
        self.lock_blocks += 1
        self.main.release()
        a.go.acquire()
        a.waiting_for = None

    # -- the loop ---------------------------------------------------------
    def _runnable(self):
        out = []
        for a in self.actors:
            if a.done:
                continue
            if a.waiting_for is not None and not a.waiting_for._free_for(a):
                continue
            out.append(a)
        return out

    def _pick(self, runnable):
        if self.policy == "fixed" or self.fixed is not None:
            if self.fixed_pos < len(self.fixed):
                want = self.fixed[self.fixed_pos]
                self.fixed_pos += 1
                for a in runnable:
                    if a.name == want:
                        return a
            return min(runnable, key=lambda a: a.name)
        if self.policy == "pct":
            if self._pct_points is None:
                for a in self.actors:
                    a.prio = self.rng.random() + 1.0
                horizon = 40 * max(1, len(self.actors))
                self._pct_points = sorted(
                    self.rng.randrange(1, horizon) for _ in range(max(0, self.pct_depth - 1))
                )
            n = len(self.taken)
            best = max(runnable, key=lambda a: a.prio)
            if self._pct_points and n >= self._pct_points[0]:
                self._pct_points.pop(0)
                best.prio = self.rng.random()  # drop below every initial priority
                best = max(runnable, key=lambda a: a.prio)
            return best
        return runnable[self.rng.randrange(len(runnable))]

    def run(self):
        """Run all spawned actors to completion under the policy."""
        world = self.world
        world.sched = self
        try:
            for a in self.actors:
                t = threading.Thread(target=self._thread_main, args=(a,), daemon=True,
                                     name="actor-" + a.name)
                a.thread = t
                t.start()
                self.by_thread[t.ident] = a
                a.started = True
            total = 0
            while True:
                runnable = self._runnable()
                if not runnable:
                    if any(not a.done for a in self.actors):
                        self.deadlock = True
                    break
                total += 1
                if total > self.max_steps:
                    raise ActorFailed("step cap exceeded")
                a = self._pick(runnable)
                self.taken.append(a.name)
                self.current = a
                a.go.release()
                self.main.acquire()
            self.current = None
        finally:
            world.sched = None
            # no thread may be alive when the run-process forks its next clone
            if not self.deadlock:
                for a in self.actors:
                    if a.thread is not None and a.done:
                        a.thread.join(5.0)
        return self

    def fingerprint(self):
        h = hashlib.sha256()
        for k in sorted(self.hb):
            h.update(k.encode())
            h.update(repr(self.hb[k]).encode())
        return h.hexdigest()[:24]

    def preemptions(self):
        n = 0
        for i in range(1, len(self.taken)):
            if self.taken[i] != self.taken[i - 1]:
                n += 1
        return n


# ----------------------------------------------------------------------------
class SimRLock:
    """Re-entrant lock whose ownership is kept per simulated process.

    Without a scheduler (single-actor runs) it is a plain re-entrant counter.
    With one, a contended acquire is a scheduler event, never a native block.
    """

    sched = None  # set by install_locks

    def __init__(self):
        self._st = {}  # pid -> [owner actor or None, count]

    def _free_for(self, actor):
        st = self._st.get(actor.pid)
        return st is None or st[1] == 0 or st[0] is actor

    def acquire(self, blocking=True, timeout=-1):
        s = SimRLock.sched
        a = s.current_actor() if s is not None else None
        if a is None:
            st = self._st.setdefault(None, [None, 0])
            st[1] += 1
            return True
        while True:
            st = self._st.setdefault(a.pid, [None, 0])
            if st[1] == 0 or st[0] is a:
                st[0] = a
                st[1] += 1
                return True
            if not blocking:
                return False
            s.block_on(self)

    def release(self):
        s = SimRLock.sched
        a = s.current_actor() if s is not None else None
        st = self._st.get(a.pid if a is not None else None)
        if st is None or st[1] == 0:
            raise RuntimeError("cannot release un-acquired lock")
        st[1] -= 1
        if st[1] == 0:
            st[0] = None

    __enter__ = acquire

    def __exit__(self, *a):
        self.release()
        return False

    def _is_owned(self):
        return any(st[1] for st in self._st.values())


class SimPool:
    """In-process stand-in for multiprocessing.pool.ThreadPool.

    map/imap/imap_unordered run the tasks as thread-actors of the calling
    process under the scheduler of the current world.  Without a scheduler the
    tasks run sequentially in a seeded order.
    """

    width = 2
    rng = None

    def __init__(self, processes=None, *a, **kw):
        self.n = processes or SimPool.width

    def __enter__(self):
        return self

    def __exit__(self, *a):
        return False

    def close(self):
        pass

    def join(self):
        pass

    def terminate(self):
        pass

    def _run(self, fn, items):
        from .world import SimWorld

        items = list(items)
        world = SimWorld.current
        results = [None] * len(items)
        if not items:
            return results
        outer = world.sched if world is not None else None
        n = max(1, min(self.n, len(items)))
        queue = list(range(len(items)))
        errors = []

        def worker():
            while queue:
                i = queue.pop(0)
                try:
                    results[i] = fn(items[i])
                except BaseException as e:  # noqa: BLE001
                    errors.append((i, e))
                    return

        if outer is not None and outer.current_actor() is not None:
            # pool used by a process-actor: its tasks become thread-actors of the
            # same simulated process inside the running scheduler
            caller = outer.current_actor()
            # numbered per scheduler (not per process), so that a recorded schedule replays by name
            outer.pool_count = getattr(outer, "pool_count", 0) + 1
            kids = [outer.spawn_live(f"{caller.name}.p{outer.pool_count}t{k}", worker, caller.pid)
                    for k in range(n)]
            outer.block_on(_Join(kids))
            for k in kids:
                if k.error is not None:
                    errors.append((-1, k.error))
            if errors:
                errors.sort(key=lambda t: t[0])
                raise errors[0][1]
            return results
        seed = world.seed if world is not None else 0
        s = Scheduler(world, f"{seed}:pool:{world.seq if world else 0}",
                      policy=SimPool.policy)
        for k in range(n):
            s.spawn(f"t{k}", worker, pid="pool")
        prev = SimRLock.sched
        SimRLock.sched = s
        try:
            s.run()
        finally:
            SimRLock.sched = prev
        SimPool.interleavings.add(s.fingerprint())
        if errors:
            errors.sort(key=lambda t: t[0])
            raise errors[0][1]
        return results

    policy = "random"
    interleavings = set()
    nested_n = 0

    def map(self, fn, iterable, chunksize=None):
        return self._run(fn, iterable)

    def imap(self, fn, iterable, chunksize=1):
        return iter(self._run(fn, iterable))

    imap_unordered = imap

    def starmap(self, fn, iterable, chunksize=None):
        return self._run(lambda args: fn(*args), iterable)


class _Join:
    def __init__(self, actors):
        self.actors = actors

    def _free_for(self, actor):
        return all(a.done for a in self.actors)


def install_locks(shared_interpreter=False):
    """Replace the RLock names signac and synced_collections captured, and the
    class-level lock objects that already exist.

    shared_interpreter: several simulated *processes* run in this interpreter and therefore share
    synced_collections' per-file lock table, which real processes would not: only then is the table the
    tolerant one.  Everywhere else it is a plain dict, as in production - a lock entry that production code
    loses (and then trips over with a KeyError) must be lost here too."""
    import signac.job
    import signac.project
    import synced_collections.buffers.file_buffered_collection as fbc
    import synced_collections.data_types.synced_collection as sc

    signac.job.RLock = SimRLock
    signac.project.RLock = SimRLock
    sc.RLock = SimRLock
    fbc.RLock = SimRLock

    def walk(cls):
        yield cls
        for sub in cls.__subclasses__():
            yield from walk(sub)

    for cls in walk(sc.SyncedCollection):
        d = cls.__dict__
        if "_cls_lock" in d:
            cls._cls_lock = SimRLock()
            cls._locks = _LockTable() if shared_interpreter else {}
        if "_BUFFER_LOCK" in d:
            cls._BUFFER_LOCK = SimRLock()


class _LockTable(dict):
    """synced_collections keeps one lock per file name in a class-level dict and
    *moves* the entry when a collection's filename changes.  Two simulated
    processes share that dict only because they share an interpreter, so a
    missing entry is recreated instead of raising."""

    def __missing__(self, key):
        lock = SimRLock()
        self[key] = lock
        return lock

    def pop(self, key, *default):
        try:
            return dict.pop(self, key)
        except KeyError:
            return SimRLock()


def install_pools(width=2, policy="random"):
    import signac.project
    import signac.sync

    SimPool.width = width
    SimPool.policy = policy
    SimPool.interleavings = set()
    SimPool.nested_n = 0
    signac.project.ThreadPool = SimPool
    signac.sync.ThreadPool = SimPool

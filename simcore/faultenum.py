"""Fault enumeration over one operation's step trace.

trace_op()   runs the operation fault-free in a forked clone and returns its trace.
variants()   lists every single fault applicable to that trace.
run_variant() restores the pre-state, forks, runs the operation under one fault;
              the clone dies at the crash step (os._exit) or reports what the caller saw.
"""

from .driver import run_forked
from .world import CRASH_EXIT, MUTATING, FaultPlan, restore

ERRNOS_MUT = ("EIO", "ENOSPC", "EACCES", "EROFS")
ERRNOS_READ = ("EIO", "EACCES")


def _child(world, op, plan, send):
    info = {}

    def on_crash():
        send(("crash", {"trace": list(world.trace), "fired": list(world.fired),
                        "digest": world.digest(), "clock_ms": world.clock_ms}))

    world.on_crash = on_crash
    world.arm(plan)
    try:
        try:
            info["result"] = op()
            info["outcome"] = "ok"
        except Exception as e:  # the caller-visible outcome of the operation
            info["outcome"] = "exc"
            info["exc_type"] = type(e).__name__
            info["exc_mro"] = [c.__name__ for c in type(e).__mro__]
            info["exc_errno"] = getattr(e, "errno", None)
            info["exc_str"] = str(e)[:300]
    finally:
        world.disarm()
    info["trace"] = list(world.trace)
    info["fired"] = list(world.fired)
    info["digest"] = world.digest()
    info["clock_ms"] = world.clock_ms
    return info


def run_op(world, op, plan=None, after=None, timeout=30.0):
    """Run op() in a forked clone under `plan`.  `after(info)` (optional) runs in
    the clone after the operation, for handle-state reports.
    Returns (status, info): status in ok | crash | timeout | died | exc(harness)."""

    def fn(send):
        info = _child(world, op, plan, send)
        if after is not None:
            with world.observing():
                info["after"] = after(info)
        return info

    status, payload = run_forked(fn, timeout, with_sender=True)
    if status == "ok":
        return "ok", payload
    if status == "crash":
        return "crash", payload
    return status, payload


def variants(trace, crash=True, torn=True, errnos=True, exdev=True):
    """All single faults for a fault-free trace [(idx, kind, rel, rel2, n), ...]."""
    out = []
    for idx, kind, rel, rel2, n in trace:
        if kind in MUTATING:
            if crash:
                out.append({"step": idx, "kind": "crash"})
            if torn and kind == "write" and n and n >= 2:
                for b in sorted({1, n // 2, n - 1}):
                    if 0 < b < n:
                        out.append({"step": idx, "kind": "torn", "bytes": b})
            if errnos:
                for e in ERRNOS_MUT:
                    out.append({"step": idx, "kind": "errno", "errno": e})
                if exdev and kind in ("rename", "link"):
                    out.append({"step": idx, "kind": "errno", "errno": "EXDEV"})
        elif errnos:
            for e in ERRNOS_READ:
                out.append({"step": idx, "kind": "errno", "errno": e})
    return out


def fault_label(f):
    if f["kind"] == "errno":
        return "errno:" + f["errno"]
    return f["kind"]

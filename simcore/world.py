"""SimWorld: the file-system seam.

While a SimWorld is active, every os-level call on a path below the world root
is one *step*: a scheduling point, a place where the fault plan may strike, an
entry in the event log.  Calls on paths outside the root pass through.

No hook lives in /repo: the seam is applied from here by replacing names in
``os``, ``builtins``, ``io``, ``tarfile``, ``bz2``, ``shutil``, ``uuid`` and
``tempfile`` and is undone when the world is left.
"""

import builtins
import bz2
import errno as _errno
import hashlib
import io
import os
import random
import shutil
import stat as _stat
import sys
import tarfile
import tempfile
import uuid

CRASH_EXIT = 77

# ----------------------------------------------------------------------------
# originals, captured once at import (before any world is installed)
# ----------------------------------------------------------------------------
O = type("Orig", (), {})()
for _n in (
    "mkdir rmdir unlink remove rename replace symlink link listdir scandir stat "
    "lstat utime chmod readlink truncate open access"
).split():
    setattr(O, _n, getattr(os, _n))
O.close = os.close
O.fstat = os.fstat
O.builtins_open = builtins.open
O.io_open = io.open
O.uuid4 = uuid.uuid4

MUTATING = frozenset(
    "mkdir rmdir unlink rename symlink link truncate open-w write chmod utime".split()
)
NAMESPACE = frozenset("mkdir rmdir unlink rename symlink link".split())
READING = frozenset("stat lstat listdir scandir readlink open-r read".split())

ERRNO = {
    "EIO": _errno.EIO,
    "ENOSPC": _errno.ENOSPC,
    "EACCES": _errno.EACCES,
    "EROFS": _errno.EROFS,
    "EXDEV": _errno.EXDEV,
}


def derive(seed, name):
    """Independent PRNG stream `name` of run seed `seed`."""
    h = hashlib.sha256(f"{seed}:{name}".encode()).digest()
    return random.Random(int.from_bytes(h[:8], "big"))


class SimCrash(BaseException):
    """Raised instead of os._exit when a world runs with in-process crashes."""


class FaultPlan:
    """A list of faults keyed by the index of the step (counted while armed).

    fault = {"step": k, "kind": "crash"}                      die before step k
            {"step": k, "kind": "torn", "bytes": n}           write n bytes of step k's data, die
            {"step": k, "kind": "errno", "errno": "EIO"}      step k raises instead of acting
    """

    def __init__(self, faults=()):
        self.by_step = {}
        for f in faults:
            self.by_step.setdefault(int(f["step"]), []).append(f)
        self.fired = []

    def at(self, idx):
        return self.by_step.get(idx)


class _SeededNames:
    """Replacement for tempfile._RandomNameSequence (which reseeds on fork)."""

    chars = "abcdefghijklmnopqrstuvwxyz0123456789_"

    def __init__(self, rng):
        self.rng = rng

    def __iter__(self):
        return self

    def __next__(self):
        return "".join(self.rng.choices(self.chars, k=8))


class _ScandirIter:
    def __init__(self, entries):
        self._it = iter(entries)

    def __iter__(self):
        return self

    def __next__(self):
        return next(self._it)

    def __enter__(self):
        return self

    def __exit__(self, *a):
        self.close()

    def close(self):
        self._it = iter(())


class SimFileIO(io.FileIO):
    """Raw file whose write/truncate/close are seam calls."""

    def __init__(self, world, path, rel, mode, opener=None):
        super().__init__(path, mode, opener=opener)
        self._w = world
        self._rel = rel
        self._dirty = False
        self._wr = self.writable()

    def write(self, b):
        w = self._w
        if not w.active or w.quiet:
            return super().write(b)
        data = bytes(b)
        n = len(data)
        if n == 0:
            return 0
        pos = 0
        for size in w.chunks(n):
            chunk = data[pos : pos + size]
            act = w.step("write", self._rel, n=size)
            if act is not None:
                kind = act["kind"]
                if kind == "torn":
                    k = min(int(act["bytes"]), size)
                    if k:
                        super().write(chunk[:k])
                    w.die()
                if kind == "errno":
                    if act["errno"] == "ENOSPC" and size > 1:
                        super().write(chunk[: size // 2])
                        self._dirty = True
                    raise OSError(ERRNO[act["errno"]], "injected", self.name)
            done = 0
            while done < size:
                done += super().write(chunk[done:])
            self._dirty = True
            pos += size
        return n

    def truncate(self, size=None):
        w = self._w
        if w.active and not w.quiet:
            act = w.step("truncate", self._rel)
            if act is not None and act["kind"] == "errno":
                raise OSError(ERRNO[act["errno"]], "injected", self.name)
        self._dirty = True
        return super().truncate(size)

    def readinto(self, b):
        w = self._w
        if w.active and not w.quiet and w.read_steps:
            act = w.step("read", self._rel)
            if act is not None and act["kind"] == "errno":
                raise OSError(ERRNO[act["errno"]], "injected", self.name)
        return super().readinto(b)

    def readall(self):
        w = self._w
        if w.active and not w.quiet and w.read_steps:
            act = w.step("read", self._rel)
            if act is not None and act["kind"] == "errno":
                raise OSError(ERRNO[act["errno"]], "injected", self.name)
        return super().readall()

    def close(self):
        if not self.closed and self._wr and self._dirty:
            try:
                t = self._w.stamp()
                O.utime(self.fileno(), ns=(t, t))
            except OSError:
                pass
        return super().close()


class SimWorld:
    """Owns a scratch directory and the seam around it."""

    current = None

    def __init__(self, root, seed=0, knobs=None, forked_crash=True):
        self.root = os.path.abspath(root)
        self._prefix = self.root + os.sep
        self.seed = seed
        k = dict(knobs or {})
        self.knobs = k
        self.listing = k.get("listing", "shuffle")  # sorted | reverse | shuffle
        self.chunk = k.get("chunk", "none")  # none | split2 | small
        self.clock_policy = k.get("clock", "inc")  # inc | coarse | stall | back
        self.read_steps = k.get("read_steps", True)
        self.xdev_tmp = bool(k.get("xdev_tmp", False))  # tmp/ behaves like a separate file system
        self.xdev_hits = 0
        self.rng_listing = derive(seed, "listing")
        self.rng_chunk = derive(seed, "chunk")
        self.rng_clock = derive(seed, "clock")
        self.rng_uuid = derive(seed, "uuid")
        self.rng_tmp = derive(seed, "tmp")
        self.forked_crash = forked_crash
        self.active = False
        self.quiet = 0
        self.log = []
        self.seq = 0
        # fault plan
        self.plan = None
        self.armed = False
        self.step_idx = 0
        self.trace = []  # (idx, kind, rel, rel2, n) while armed
        self.fdpaths = {}  # directory descriptors opened through the seam -> absolute path
        self.fired = []
        # scheduler (set by simcore.sched.Scheduler)
        self.sched = None
        # clock
        self.clock_ms = 1_000_000_000_000  # ms; 2001-09-09, late enough for zip timestamps, small enough for exact float mtimes
        self._back_at = None
        if self.clock_policy == "back":
            self._back_at = self.rng_clock.randrange(5, 60)
        self.steps_by_kind = {}
        self.on_crash = None  # callable run just before dying (child reports)
        self.monitors = []  # callables (kind, rel, rel2) for containment checks
        self._saved = None

    # ---- paths ---------------------------------------------------------
    def rel(self, path):
        """World-relative path, or None if outside / not a path."""
        if type(path) is not str:
            if isinstance(path, int):
                return None
            try:
                path = os.fspath(path)
            except TypeError:
                return None
            if isinstance(path, bytes):
                path = os.fsdecode(path)
        if not path.startswith("/"):
            path = os.path.abspath(path)
        if path.startswith(self._prefix):
            if "/../" in path or path.endswith("/..") or "/./" in path:
                path = os.path.normpath(path)
                if not path.startswith(self._prefix):
                    return None
            return path[len(self._prefix) :]
        if path == self.root:
            return ""
        return None

    def p(self, *parts):
        return os.path.join(self.root, *parts)

    # ---- clock ---------------------------------------------------------
    def tick(self):
        pol = self.clock_policy
        if pol == "stall":
            return
        if pol == "back" and self._back_at is not None and self.seq >= self._back_at:
            self.clock_ms -= self.rng_clock.randrange(2_000, 20_000)
            self._back_at = None
            return
        self.clock_ms += self.rng_clock.choice((1, 1, 2, 7, 500, 1500))

    def stamp(self):
        """mtime (ns) for a file written now."""
        ms = self.clock_ms
        if self.clock_policy == "coarse":
            ms -= ms % 2000
        return ms * 1_000_000

    # ---- write chunking ----------------------------------------------
    def chunks(self, n):
        mode = self.chunk
        if mode == "none" or n < 2:
            return (n,)
        if mode == "split2":
            k = self.rng_chunk.randrange(1, n)
            return (k, n - k)
        # small: up to 3 pieces
        cuts = sorted({self.rng_chunk.randrange(1, n) for _ in range(2)})
        out, prev = [], 0
        for c in cuts:
            out.append(c - prev)
            prev = c
        out.append(n - prev)
        return tuple(out)

    # ---- the step ------------------------------------------------------
    def step(self, kind, rel, rel2=None, n=None):
        """Scheduling point + log entry + fault decision.  Returns the fault
        action for the caller to apply (errno / torn) or None."""
        sched = self.sched
        actor = None
        if sched is not None:
            actor = sched.yield_point(kind, rel)
        self.seq += 1
        self.steps_by_kind[kind] = self.steps_by_kind.get(kind, 0) + 1
        self.log.append((self.seq, actor, kind, rel, rel2, n))
        self.tick()
        if self.monitors:
            for m in self.monitors:
                m(kind, rel, rel2)
        if self.armed:
            idx = self.step_idx
            self.step_idx += 1
            self.trace.append((idx, kind, rel, rel2, n))
            plan = self.plan
            if plan is not None:
                fl = plan.at(idx)
                if fl:
                    for f in fl:
                        self.fired.append(f)
                        if f["kind"] == "crash":
                            self.die()
                        return f
        return None

    def die(self):
        if self.on_crash is not None:
            self.on_crash()
        if self.forked_crash:
            os._exit(CRASH_EXIT)
        raise SimCrash()

    def arm(self, plan=None):
        self.plan = plan
        self.armed = True
        self.step_idx = 0
        self.trace = []

    def disarm(self):
        self.armed = False
        self.plan = None

    def digest(self):
        h = hashlib.sha256()
        for e in self.log:
            h.update(repr(e).encode())
        return "sha256:" + h.hexdigest()

    # ---- generic wrappers --------------------------------------------
    def _raise(self, act, path):
        raise OSError(ERRNO[act["errno"]], "injected " + act["errno"], path)

    def _wrap1(self, kind, orig):
        world = self

        def f(path, *a, **kw):
            if world.quiet:
                return orig(path, *a, **kw)
            full = path
            if kw.get("dir_fd") is not None:
                # a name relative to an open directory (shutil.rmtree's fd-based walk): the seam knows
                # which directory the descriptor denotes
                base = world.fdpaths.get(kw["dir_fd"])
                if base is None or isinstance(path, (int, bytes)):
                    return orig(path, *a, **kw)
                full = os.path.join(base, os.fspath(path))
            elif "dir_fd" in kw:
                kw = {k: v for k, v in kw.items() if k != "dir_fd"}
            rel = world.rel(full)
            if rel is None:
                return orig(path, *a, **kw)
            act = world.step(kind, rel)
            if act is not None and act["kind"] == "errno":
                world._raise(act, full)
            if kind in NAMESPACE:
                r = orig(path, *a, **kw)
                world._stamp_dirs(full, new_dir=(kind == "mkdir"))
                return r
            return orig(path, *a, **kw)

        f.__name__ = getattr(orig, "__name__", kind)
        return f

    def _stamp_dirs(self, *paths, new_dir=False):
        """Directory mtimes follow the simulated clock too (archives record them)."""
        t = self.stamp()
        for path in paths:
            try:
                path = os.fspath(path)
                if new_dir:
                    O.utime(path, ns=(t, t))
                parent = os.path.dirname(os.path.abspath(path))
                if parent.startswith(self._prefix) or parent == self.root:
                    O.utime(parent, ns=(t, t))
            except (OSError, TypeError):
                pass

    def _wrap2(self, kind, orig):
        world = self

        def f(src, dst, *a, **kw):
            if world.quiet or "src_dir_fd" in kw or "dst_dir_fd" in kw or "dir_fd" in kw:
                return orig(src, dst, *a, **kw)
            r1 = world.rel(src)
            r2 = world.rel(dst)
            if world.xdev_tmp and kind in ("rename", "link") and r1 is not None and r2 is not None \
                    and (r1.startswith("tmp/") != r2.startswith("tmp/")):
                # knob: the temporary directory lives on another file system
                world.step(kind, r1, r2)
                world.xdev_hits += 1
                raise OSError(_errno.EXDEV, "Invalid cross-device link (simulated: tmp is another file system)", src)
            if kind == "symlink":
                # the link is created at dst; src is only text
                if r2 is None:
                    return orig(src, dst, *a, **kw)
                act = world.step(kind, r2, src if r1 is None else r1)
            else:
                if r1 is None and r2 is None:
                    return orig(src, dst, *a, **kw)
                act = world.step(kind, r1 if r1 is not None else "<outside>",
                                 r2 if r2 is not None else "<outside>")
            if act is not None and act["kind"] == "errno":
                world._raise(act, src)
            r = orig(src, dst, *a, **kw)
            if kind == "symlink":
                world._stamp_dirs(dst)
            else:
                world._stamp_dirs(*[p for p, rr in ((src, r1), (dst, r2)) if rr is not None])
            return r

        f.__name__ = getattr(orig, "__name__", kind)
        return f

    def _listdir(self, path="."):
        if self.quiet:
            return O.listdir(path)
        rel = self.rel(path)
        if rel is None:
            return O.listdir(path)
        act = self.step("listdir", rel)
        if act is not None and act["kind"] == "errno":
            self._raise(act, path)
        names = O.listdir(path)
        return self._permute(names, key=None)

    def _permute(self, items, key):
        items = sorted(items, key=key)
        mode = self.listing
        if mode == "reverse":
            items.reverse()
        elif mode == "shuffle":
            self.rng_listing.shuffle(items)
        return items

    def _scandir(self, path="."):
        if self.quiet:
            return O.scandir(path)
        rel = self.rel(self.fdpaths[path]) if isinstance(path, int) and path in self.fdpaths else self.rel(path)
        if rel is None:
            return O.scandir(path)
        act = self.step("scandir", rel)
        if act is not None and act["kind"] == "errno":
            self._raise(act, path)
        with O.scandir(path) as it:
            entries = list(it)
        return _ScandirIter(self._permute(entries, key=lambda e: e.name))

    def _utime(self, path, *a, **kw):
        if self.quiet or isinstance(path, int) or "dir_fd" in kw:
            return O.utime(path, *a, **kw)
        rel = self.rel(path)
        if rel is None:
            return O.utime(path, *a, **kw)
        act = self.step("utime", rel)
        if act is not None and act["kind"] == "errno":
            self._raise(act, path)
        if not a and kw.get("ns") is None and kw.get("times") is None:
            t = self.stamp()
            kw = dict(kw)
            kw["ns"] = (t, t)
        return O.utime(path, *a, **kw)

    def _os_open(self, path, flags, mode=0o777, *, dir_fd=None):
        if self.quiet:
            return O.open(path, flags, mode, dir_fd=dir_fd)
        full = path
        if dir_fd is not None:
            base = self.fdpaths.get(dir_fd)
            if base is None or isinstance(path, (int, bytes)):
                return O.open(path, flags, mode, dir_fd=dir_fd)
            full = os.path.join(base, os.fspath(path))
        rel = self.rel(full)
        if rel is None:
            return O.open(path, flags, mode, dir_fd=dir_fd)
        wr = flags & (os.O_WRONLY | os.O_RDWR | os.O_CREAT | os.O_TRUNC | os.O_APPEND)
        act = self.step("open-w" if wr else "open-r", rel)
        if act is not None and act["kind"] == "errno":
            self._raise(act, full)
        fd = O.open(path, flags, mode, dir_fd=dir_fd)
        if not wr:
            try:
                if _stat.S_ISDIR(O.fstat(fd).st_mode):
                    self.fdpaths[fd] = os.path.abspath(os.fspath(full))
            except OSError:
                pass
        return fd

    def _os_close(self, fd):
        self.fdpaths.pop(fd, None)
        return O.close(fd)

    def _open(self, file, mode="r", buffering=-1, encoding=None, errors=None,
              newline=None, closefd=True, opener=None):
        if self.quiet or isinstance(file, int):
            return O.io_open(file, mode, buffering, encoding, errors, newline, closefd, opener)
        rel = self.rel(file)
        if rel is None:
            return O.io_open(file, mode, buffering, encoding, errors, newline, closefd, opener)
        path = os.fspath(file)
        m = set(mode)
        binary = "b" in m
        creating = "x" in m
        writing = "w" in m
        appending = "a" in m
        updating = "+" in m
        reading = "r" in m
        if not (creating or writing or appending or reading):
            raise ValueError("invalid mode: %r" % mode)
        wr = creating or writing or appending or updating
        kind = "open-w" if wr else "open-r"
        act = self.step(kind, rel)
        if act is not None and act["kind"] == "errno":
            self._raise(act, path)
        rawmode = (
            ("x" if creating else "")
            + ("r" if reading else "")
            + ("w" if writing else "")
            + ("a" if appending else "")
            + ("+" if updating else "")
        )
        existed = True
        if writing or creating or appending:
            try:
                O.lstat(path)
            except OSError:
                existed = False
        raw = SimFileIO(self, path, rel, rawmode, opener=opener)
        result = raw
        try:
            if (writing and existed) or not existed:
                # creation or truncation changes the mtime
                try:
                    t = self.stamp()
                    O.utime(raw.fileno(), ns=(t, t))
                except OSError:
                    pass
            if not existed:
                self._stamp_dirs(path)
            line_buffering = False
            if buffering == 1 or (buffering < 0 and raw.isatty()):
                buffering = -1
                line_buffering = True
            if buffering < 0:
                buffering = io.DEFAULT_BUFFER_SIZE
            if buffering == 0:
                if binary:
                    return result
                raise ValueError("can't have unbuffered text I/O")
            if updating:
                buffer = io.BufferedRandom(raw, buffering)
            elif creating or writing or appending:
                buffer = io.BufferedWriter(raw, buffering)
            else:
                buffer = io.BufferedReader(raw, buffering)
            result = buffer
            if binary:
                return result
            text = io.TextIOWrapper(buffer, encoding, errors, newline, line_buffering)
            result = text
            text.mode = mode
            return result
        except BaseException:
            result.close()
            raise

    # ---- install / uninstall ----------------------------------------
    def __enter__(self):
        assert SimWorld.current is None, "nested SimWorld"
        SimWorld.current = self
        O.mkdir(self.root) if not os.path.isdir(self.root) else None
        for d in ("home", "tmp"):
            try:
                O.mkdir(self.p(d))
            except FileExistsError:
                pass
        s = self._saved = {}
        s["env_HOME"] = os.environ.get("HOME")
        os.environ["HOME"] = self.p("home")
        s["tempdir"] = tempfile.tempdir
        tempfile.tempdir = self.p("tmp")
        s["names"] = tempfile._name_sequence
        tempfile._name_sequence = _SeededNames(self.rng_tmp)
        s["sendfile"] = shutil._USE_CP_SENDFILE
        shutil._USE_CP_SENDFILE = False
        s["fdfuncs"] = shutil._use_fd_functions
        # shutil.rmtree: the path-based walk, or (knob fd_rmtree) the descriptor-based walk that CPython
        # uses on Linux; the seam follows names relative to directory descriptors (fdpaths)
        shutil._use_fd_functions = bool(self.knobs.get("fd_rmtree")) and s["fdfuncs"]
        rng_uuid = self.rng_uuid
        uuid.uuid4 = lambda: uuid.UUID(int=rng_uuid.getrandbits(128), version=4)

        os.mkdir = self._wrap1("mkdir", O.mkdir)
        os.rmdir = self._wrap1("rmdir", O.rmdir)
        os.unlink = self._wrap1("unlink", O.unlink)
        os.remove = self._wrap1("unlink", O.remove)
        os.stat = self._wrap1("stat", O.stat)
        os.lstat = self._wrap1("lstat", O.lstat)
        os.chmod = self._wrap1("chmod", O.chmod)
        os.readlink = self._wrap1("readlink", O.readlink)
        os.truncate = self._wrap1("truncate", O.truncate)
        os.rename = self._wrap2("rename", O.rename)
        os.replace = self._wrap2("rename", O.replace)
        os.symlink = self._wrap2("symlink", O.symlink)
        os.link = self._wrap2("link", O.link)
        os.listdir = self._listdir
        os.scandir = self._scandir
        os.utime = self._utime
        os.open = self._os_open
        os.close = self._os_close
        builtins.open = self._open
        io.open = self._open
        tarfile.bltn_open = self._open
        bz2._builtin_open = self._open
        self.active = True
        return self

    def __exit__(self, *exc):
        self.active = False
        for n in ("mkdir rmdir unlink remove stat lstat chmod readlink truncate rename "
                  "replace symlink link listdir scandir utime open close").split():
            setattr(os, n, getattr(O, n))
        builtins.open = O.builtins_open
        io.open = O.io_open
        tarfile.bltn_open = O.builtins_open
        bz2._builtin_open = O.builtins_open
        uuid.uuid4 = O.uuid4
        s = self._saved
        if s["env_HOME"] is None:
            os.environ.pop("HOME", None)
        else:
            os.environ["HOME"] = s["env_HOME"]
        tempfile.tempdir = s["tempdir"]
        tempfile._name_sequence = s["names"]
        shutil._USE_CP_SENDFILE = s["sendfile"]
        shutil._use_fd_functions = s["fdfuncs"]
        SimWorld.current = None
        return False

    # ---- harness-side observation (no steps, no faults) -------------
    class _Quiet:
        def __init__(self, w):
            self.w = w

        def __enter__(self):
            self.w.quiet += 1

        def __exit__(self, *a):
            self.w.quiet -= 1
            return False

    def observing(self):
        return SimWorld._Quiet(self)

    def new_incarnation(self, tag):
        """The process that continues after a forked clone died draws other uuids and temporary names
        than the dead one did (the clone's PRNG state is lost with it; without this both would use the
        same names, which real processes never do)."""
        self.rng_uuid.seed(derive(self.seed, f"uuid:{tag}").getrandbits(64))
        self.rng_tmp.seed(derive(self.seed, f"tmp:{tag}").getrandbits(64))


# ----------------------------------------------------------------------------
# snapshots (always taken with the original functions)
# ----------------------------------------------------------------------------
class Snap(dict):
    """A snapshot; `links` lists groups of paths that are hard links to one file (restore() re-creates
    them; comparisons between snapshots look at the entries only)."""

    links = ()


def snapshot(root, mtimes=False, skip=()):
    """{relative path: ('d',) | ('l', target) | ('f', bytes[, mtime_ns])}"""
    out = Snap()
    inodes = {}
    stack = [""]
    while stack:
        rel = stack.pop()
        full = os.path.join(root, rel) if rel else root
        try:
            it = O.scandir(full)
        except FileNotFoundError:
            continue
        with it:
            entries = sorted(it, key=lambda e: e.name)
        for e in entries:
            r = e.name if not rel else rel + "/" + e.name
            if r in skip:
                continue
            if e.is_symlink():
                out[r] = ("l", O.readlink(e.path))
            elif e.is_dir(follow_symlinks=False):
                out[r] = ("d",)
                stack.append(r)
            else:
                with O.io_open(e.path, "rb") as f:
                    data = f.read()
                st = e.stat(follow_symlinks=False)
                if st.st_nlink > 1:
                    inodes.setdefault((st.st_dev, st.st_ino), []).append(r)
                if mtimes:
                    out[r] = ("f", data, O.stat(e.path).st_mtime_ns)
                else:
                    out[r] = ("f", data)
    out.links = tuple(tuple(sorted(g)) for g in inodes.values() if len(g) > 1)
    return out


def restore(root, snap):
    """Make `root` hold exactly `snap` (taken with mtimes=True or not)."""
    wipe(root)
    O.mkdir(root)
    for r in sorted(snap):
        ent = snap[r]
        full = os.path.join(root, r)
        if ent[0] == "d":
            O.mkdir(full)
        elif ent[0] == "l":
            O.symlink(ent[1], full)
        else:
            with O.io_open(full, "wb") as f:
                f.write(ent[1])
            if len(ent) > 2:
                O.utime(full, ns=(ent[2], ent[2]))
    for group in getattr(snap, "links", ()):
        first = os.path.join(root, group[0])
        for other in group[1:]:
            O.unlink(os.path.join(root, other))
            O.link(first, os.path.join(root, other))


def wipe(root):
    try:
        st = O.lstat(root)
    except FileNotFoundError:
        return
    if not _stat.S_ISDIR(st.st_mode):
        O.unlink(root)
        return
    with O.scandir(root) as it:
        entries = list(it)
    for e in entries:
        if e.is_dir(follow_symlinks=False):
            wipe(e.path)
        else:
            O.unlink(e.path)
    O.rmdir(root)


def snap_digest(snap):
    h = hashlib.sha256()
    for r in sorted(snap):
        h.update(r.encode("utf-8", "surrogateescape"))
        ent = snap[r]
        h.update(ent[0].encode())
        if ent[0] == "f":
            h.update(hashlib.sha256(ent[1]).digest())
        elif ent[0] == "l":
            h.update(ent[1].encode())
    return h.hexdigest()


def diff_snap(a, b, limit=6):
    """Human-readable difference between two snapshots."""
    out = []
    for r in sorted(set(a) | set(b)):
        if r not in a:
            out.append(f"+{r}")
        elif r not in b:
            out.append(f"-{r}")
        elif a[r][:2] != b[r][:2]:
            out.append(f"~{r}")
        if len(out) >= limit:
            break
    return out

"""Search driver: workers, fork-per-run isolation, minimisation, replay, evidence.

Parent (`main`) starts W fresh interpreters (pinned PYTHONHASHSEED).  Each worker
imports the engine once and, for every run index it owns, derives the run seed,
generates a scenario (pure data), executes it in a forked run-process, and on a
violation minimises the scenario and writes a replay file.  The parent merges
the workers' summaries, applies known_findings.json and writes the evidence.
"""

import faulthandler
import hashlib
import importlib
import json
import os
import pickle
import random
import select
import signal
import subprocess
import sys
import time
import traceback

VERIF = os.path.dirname(os.path.dirname(os.path.abspath(__file__)))
REPO = os.environ.get("VERIF_REPO", "/repo")
OUT = os.path.join(VERIF, "out")

ENGINES = {
    # property -> (module, engine class name)
    "C02": "machines.lifecycle",
    "C03": "machines.lifecycle",
    "C04": "machines.lifecycle",
    "C05": "machines.docs",
    "C08": "machines.cache",
    "C09": "machines.corrupt",
    "C10": "machines.atomic",
    "C11": "machines.crashops",
    "C12": "machines.concurrent",
    "C13": "machines.syncm",
    "C14": "machines.syncm",
    "C15": "machines.syncm",
    "C16": "machines.impexp",
    "C17": "machines.view",
    "C20": "machines.migrate",
}

LEVEL = {"C09": "fault_enumeration", "C10": "fault_enumeration", "C11": "fault_enumeration"}


def scratch_base():
    for base in ("/dev/shm", os.environ.get("TMPDIR") or "/tmp"):
        if os.path.isdir(base) and os.access(base, os.W_OK):
            d = os.path.join(base, "sgv")
            os.makedirs(d, exist_ok=True)
            return d
    raise RuntimeError("no scratch directory")


def setup_paths():
    """signac must come from VERIF_REPO's working tree; nothing is built or cached."""
    for p in (VERIF, REPO):
        if p in sys.path:
            sys.path.remove(p)
    sys.path.insert(0, REPO)
    sys.path.insert(1, VERIF)
    sys.dont_write_bytecode = True
    import logging
    import warnings

    import signac

    for name in ("signac", "synced_collections", "filelock", "sync"):
        lg = logging.getLogger(name)
        lg.addHandler(logging.NullHandler())
        lg.propagate = False
    warnings.simplefilter("ignore")
    here = os.path.realpath(os.path.dirname(os.path.dirname(signac.__file__)))
    if here != os.path.realpath(REPO):
        raise RuntimeError(f"signac imported from {here}, expected {REPO}")


def run_seed(batch_seed, prop, index):
    h = hashlib.sha256(f"{batch_seed}/{prop}/{index}".encode()).digest()
    return int.from_bytes(h[:6], "big")


# ----------------------------------------------------------------------------
# fork isolation
# ----------------------------------------------------------------------------
_NESTED = [False]
_REACH = [None]


def _reach_start():
    """tools/reach.py only (VERIF_REACH_DIR set): line coverage of the code under test, one data file
    per forked process.  Never active in a registered check."""
    d = os.environ.get("VERIF_REACH_DIR")
    if not d:
        return
    try:
        import coverage
        if _REACH[0] is not None:
            _REACH[0].stop()
        repo = os.environ.get("VERIF_REPO", "/repo")
        cov = coverage.Coverage(data_file=os.path.join(d, "cov"), data_suffix=True,
                                include=[os.path.join(repo, "signac", "*")], config_file=False)
        cov.start()
        _REACH[0] = cov
    except Exception:  # noqa: BLE001
        _REACH[0] = None


def _reach_save():
    cov = _REACH[0]
    if cov is not None:
        try:
            cov.stop()
            cov.save()
            cov.start()
        except Exception:  # noqa: BLE001
            pass


def run_forked(fn, timeout=60.0, with_sender=False):
    """Run fn() in a forked child.  Returns (status, payload):
    ('ok', result) | ('exc', traceback text) | ('timeout', None) | ('died', exit status).
    With with_sender the child calls fn(send); send(obj) writes pickle(obj) to the
    pipe at once (used to report just before a simulated crash)."""
    sys.stdout.flush()
    sys.stderr.flush()
    r, w = os.pipe()
    pid = os.fork()
    if pid == 0:
        code = 0
        try:
            os.close(r)
            # faulthandler's watchdog thread does not survive fork, and re-arming it
            # in a nested clone would wait for that thread forever: arm at level 1 only
            if not _NESTED[0]:
                _NESTED[0] = True
                # the code under test may print (signac's dry run does): keep the check's stdout clean
                try:
                    dn = os.open(os.devnull, os.O_WRONLY)
                    os.dup2(dn, 1)
                    os.close(dn)
                except OSError:
                    pass
                try:
                    faulthandler.dump_traceback_later(max(1.0, timeout - 0.5), exit=False)
                except Exception:
                    pass

            def send(obj):
                _reach_save()
                view = memoryview(pickle.dumps(obj, protocol=4))
                while view:
                    n = os.write(w, view)
                    view = view[n:]

            _reach_start()
            try:
                obj = ("ok", fn(send) if with_sender else fn())
            except BaseException:  # noqa: BLE001
                obj = ("exc", traceback.format_exc())
            send(obj)
        except BaseException:  # noqa: BLE001
            code = 3
        finally:
            os._exit(code)
    os.close(w)
    chunks = []
    deadline = time.monotonic() + timeout
    status = None
    try:
        while True:
            left = deadline - time.monotonic()
            if left <= 0:
                status = "timeout"
                break
            rl, _, _ = select.select([r], [], [], min(left, 1.0))
            if rl:
                b = os.read(r, 1 << 16)
                if not b:
                    break
                chunks.append(b)
    finally:
        os.close(r)
    if status == "timeout":
        try:
            os.kill(pid, signal.SIGKILL)
        except ProcessLookupError:
            pass
        os.waitpid(pid, 0)
        return "timeout", None
    _, st = os.waitpid(pid, 0)
    data = b"".join(chunks)
    if not data:
        return "died", st
    try:
        return pickle.loads(data)
    except Exception:
        return "died", st


# ----------------------------------------------------------------------------
# engine access
# ----------------------------------------------------------------------------
def load_engine(prop):
    mod = importlib.import_module(ENGINES[prop])
    return mod.Engine(prop)


class Ctx:
    """What an engine's execute() gets besides the scenario."""

    def __init__(self, scratch, tier):
        self.scratch = scratch
        self.tier = tier


_counter = [0]


def execute_isolated(engine, scenario, tier, timeout):
    """Execute a scenario in a forked run-process with its own scratch directory."""
    from simcore.world import wipe

    _counter[0] += 1
    scratch = os.path.join(scratch_base(), f"r{os.getpid()}-{_counter[0]}")
    wipe(scratch)

    def child():
        os.makedirs(scratch)
        return engine.execute(scenario, Ctx(scratch, tier))

    try:
        status, payload = run_forked(child, timeout)
    finally:
        wipe(scratch)
    return status, payload


# ----------------------------------------------------------------------------
# minimisation
# ----------------------------------------------------------------------------
def first_violation(result, prop, vclass=None):
    """First violation of `prop` in a run's result; with vclass, the one of that class (a run may report
    several violations of the same property)."""
    first = None
    for v in result.get("violations", ()):
        if v.get("property", prop) == prop:
            if vclass is None or v["class"] == vclass:
                return v
            if first is None:
                first = v
    return first


def minimise(engine, scenario, vclass, prop, tier, timeout, budget=150, wall=120.0):
    """Greedy delta-debugging over engine.shrink(scenario) candidates; a candidate
    is accepted only if the same violation class recurs."""
    best = scenario
    tried = 0
    t0 = time.monotonic()
    improved = True
    while improved and tried < budget and time.monotonic() - t0 < wall:
        improved = False
        for cand in engine.shrink(best):
            tried += 1
            if tried > budget or time.monotonic() - t0 > wall:
                break
            status, payload = execute_isolated(engine, cand, tier, timeout)
            if status != "ok":
                continue
            v = first_violation(payload, prop, vclass)
            if v is not None and v["class"] == vclass:
                best = cand
                improved = True
                break
    return best, tried


def generic_shrink(scenario, key="ops", keep=lambda i, op: False):
    """Candidates with chunks of scenario[key] removed (ddmin style, large first)."""
    ops = scenario.get(key) or []
    n = len(ops)
    size = n // 2
    while size >= 1:
        for start in range(0, n, size):
            idx = [i for i in range(n) if not (start <= i < start + size) or keep(i, ops[i])]
            if len(idx) == n:
                continue
            c = dict(scenario)
            c[key] = [ops[i] for i in idx]
            yield c
        size //= 2


# ----------------------------------------------------------------------------
# worker
# ----------------------------------------------------------------------------
def worker_main(argv):
    """argv: prop tier batch_seed start stride count wall outfile"""
    prop, tier = argv[0], argv[1]
    batch_seed, start, stride, count = (int(x) for x in argv[2:6])
    wall = float(argv[6])
    outfile = argv[7]
    setup_paths()
    engine = load_engine(prop)
    t0 = time.monotonic()
    timeout = engine.run_timeout(tier)
    summ = {
        "runs": 0, "nontrivial": 0, "keys": [], "stats": {}, "violations": [],
        "harness_errors": [], "samples": [], "indices": [], "wall_stop": False,
    }
    keys = set()
    ikeys = set()
    seen_classes = set()
    record = None
    if os.environ.get("VERIF_RECORD_DIGESTS"):
        record = open(os.environ["VERIF_RECORD_DIGESTS"] + f".{start}", "w")
    regress = engine.regression_scenarios() if start == 0 else []
    todo = [("reg", i, sc) for i, sc in enumerate(regress)]
    todo += [("gen", i, None) for i in range(start, count, stride)]
    for kind, i, sc in todo:
        if time.monotonic() - t0 > wall:
            summ["wall_stop"] = True
            break
        if sc is None:
            rs = run_seed(batch_seed, prop, i)
            try:
                if hasattr(engine, "generate_indexed"):
                    # engines whose quantifier is an enumerable configuration space walk it by index
                    sc = engine.generate_indexed(i, random.Random(rs), tier)
                else:
                    sc = engine.generate(random.Random(rs), tier)
            except Exception:
                summ["harness_errors"].append({"index": i, "where": "generate",
                                               "trace": traceback.format_exc()[-1500:]})
                continue
            sc["seed"] = rs
        status, payload = execute_isolated(engine, sc, tier, timeout)
        if status == "timeout":
            # a run is deterministic, so repeating it cannot hide anything; a machine that is busy
            # with other checks must not turn a slow run into a harness error
            summ["slow_runs"] = summ.get("slow_runs", 0) + 1
            status, payload = execute_isolated(engine, sc, tier, timeout * 4)
        summ["runs"] += 1
        if status != "ok":
            summ["harness_errors"].append({"index": i, "status": status,
                                           "trace": str(payload)[-3000:], "scenario": sc})
            if len(summ["harness_errors"]) >= 3:
                break
            continue
        res = payload
        if record is not None:
            record.write(f"{i}\t{res.get('digest')}\t{sorted(v['class'] for v in res.get('violations', ()))}\n")
        for k in res.get("keys", ()):
            keys.add(k)
        for k in res.get("ikeys", ()):
            ikeys.add(k)
        if res.get("nontrivial"):
            summ["nontrivial"] += 1
        merge_stats(summ["stats"], res.get("stats", {}))
        if len(summ["samples"]) < 2 and res.get("nontrivial"):
            summ["samples"].append(engine.sample(sc, res))
        for v in res.get("violations", ()):
            if v.get("property", prop) != prop:
                # a mismatch the engine attributes to another property: not this check's to report,
                # but counted, so that a run which ended there does not end silently
                fo = summ.setdefault("foreign", {})
                key = f"{v.get('property')}:{v['class']}"
                fo[key] = fo.get(key, 0) + 1
                if fo[key] == 1:
                    # keep the first scenario of each kind (un-minimised) for inspection / replay by hand
                    try:
                        d = os.path.join(OUT, "foreign", prop)
                        os.makedirs(d, exist_ok=True)
                        with open(os.path.join(d, f"{v['class'].replace(':', '_')}-{i}.json"), "w") as f:
                            json.dump({"property": prop, "engine": ENGINES[prop], "tier": tier,
                                       "hashseed": os.environ.get("PYTHONHASHSEED"), "scenario": sc,
                                       "violation": v, "event_digest": res.get("digest"), "index": i}, f)
                    except OSError:
                        pass
                continue
            if v["class"] in seen_classes:
                continue
            seen_classes.add(v["class"])
            base = sc
            if v.get("narrow"):
                cand = dict(sc)
                cand.update(v["narrow"])
                st1, res1 = execute_isolated(engine, cand, tier, timeout)
                v1 = first_violation(res1, prop, v["class"]) if st1 == "ok" else None
                if v1 is not None and v1["class"] == v["class"]:
                    base = cand
            small, tried = minimise(engine, base, v["class"], prop, tier, timeout)
            # final confirmation run of the minimised scenario
            st2, res2 = execute_isolated(engine, small, tier, timeout)
            v2 = first_violation(res2, prop, v["class"]) if st2 == "ok" else None
            if v2 is None or v2["class"] != v["class"]:
                small, res2, v2 = sc, res, v
            summ["violations"].append({
                "property": prop, "class": v2["class"], "message": v2.get("message", ""),
                "fingerprint": v2.get("fingerprint", v2["class"]),
                "scenario": small, "digest": res2.get("digest"), "shrink_tried": tried,
                "index": i,
            })
        if len(seen_classes) >= 4:
            break
    if record is not None:
        record.close()
    summ["keys"] = sorted(keys)
    summ["ikeys"] = sorted(ikeys)
    summ["wall_s"] = time.monotonic() - t0
    with open(outfile, "w") as f:
        json.dump(summ, f)
    return 0


def merge_stats(into, new):
    for k, v in new.items():
        if isinstance(v, dict):
            merge_stats(into.setdefault(k, {}), v)
        elif isinstance(v, (int, float)):
            into[k] = into.get(k, 0) + v
        elif isinstance(v, list):
            cur = into.setdefault(k, [])
            for x in v:
                if x not in cur and len(cur) < 64:
                    cur.append(x)
        else:
            into[k] = v


# ----------------------------------------------------------------------------
# parent
# ----------------------------------------------------------------------------
def load_known():
    p = os.path.join(VERIF, "known_findings.json")
    if not os.path.exists(p):
        return []
    with open(p) as f:
        return json.load(f).get("findings", [])


def write_replay(prop, v, tier, hashseed):
    d = os.path.join(OUT, "violations", prop)
    os.makedirs(d, exist_ok=True)
    body = {
        "property": prop, "engine": ENGINES[prop], "tier": tier, "hashseed": hashseed,
        "scenario": v["scenario"],
        "violation": {"class": v["class"], "message": v["message"],
                      "fingerprint": v["fingerprint"]},
        "event_digest": v.get("digest"),
    }
    name = hashlib.sha256(json.dumps(body, sort_keys=True).encode()).hexdigest()[:16]
    path = os.path.join(d, name + ".json")
    with open(path, "w") as f:
        # key order is part of the scenario (the order of a state point's keys decides the bytes of its
        # file): never sort
        json.dump(body, f, indent=1)
    return path


def hashseed_for(batch_seed, k):
    base = int(os.environ.get("VERIF_HASHSEED_BASE", "0") or 0)
    return (batch_seed * 7919 + k * 104729 + 17 + base * 7907) % 4294967295


def main(argv=None):
    import argparse

    ap = argparse.ArgumentParser()
    ap.add_argument("--property", required=False)
    ap.add_argument("--tier", default=os.environ.get("VERIF_TIER", "quick"))
    ap.add_argument("--replay")
    ap.add_argument("--workers", type=int, default=int(os.environ.get("VERIF_WORKERS", "16")))
    ap.add_argument("--count", type=int)
    ap.add_argument("--wall", type=float)
    ap.add_argument("--no-evidence", action="store_true")
    ap.add_argument("--worker", nargs=8)
    a = ap.parse_args(argv)
    if a.worker:
        return worker_main(a.worker)
    if a.replay:
        return replay_main(a.replay)
    prop = a.property
    tier = a.tier if a.tier in ("quick", "thorough") else "quick"
    batch_seed = int(os.environ.get("VERIF_SEED", "0") or 0)
    setup_paths()
    engine = load_engine(prop)
    count, wall = engine.budget(tier)
    if a.count:
        count = a.count
    if a.wall:
        wall = a.wall
    t0 = time.time()
    W = max(1, min(a.workers, count))
    os.makedirs(os.path.join(OUT, "work"), exist_ok=True)
    procs = []
    for k in range(W):
        outfile = os.path.join(OUT, "work", f"{prop}-{os.getpid()}-{k}.json")
        env = dict(os.environ)
        hs = hashseed_for(batch_seed, k)
        env["PYTHONHASHSEED"] = str(hs)
        env["VERIF_REPO"] = REPO
        env["PYTHONDONTWRITEBYTECODE"] = "1"
        cmd = [sys.executable, os.path.join(VERIF, "checks", "run.py"), "--worker",
               prop, tier, str(batch_seed), str(k), str(W), str(count), str(wall), outfile]
        procs.append((subprocess.Popen(cmd, env=env, cwd=VERIF), outfile, hs))
    hard = wall + engine.run_timeout(tier) * 3 + 400
    summaries = []
    harness = []
    for p, outfile, hs in procs:
        left = max(1.0, t0 + hard - time.time())
        try:
            rc = p.wait(timeout=left)
        except subprocess.TimeoutExpired:
            p.kill()
            p.wait()
            harness.append(f"worker wall timeout ({outfile})")
            continue
        if rc != 0 or not os.path.exists(outfile):
            harness.append(f"worker exit {rc} ({outfile})")
            continue
        with open(outfile) as f:
            s = json.load(f)
        s["hashseed"] = hs
        summaries.append(s)
        os.unlink(outfile)
    return finish(prop, tier, batch_seed, engine, summaries, harness, time.time() - t0,
                  not a.no_evidence)


def finish(prop, tier, batch_seed, engine, summaries, harness, wall_s, write_ev=True):
    runs = sum(s["runs"] for s in summaries)
    foreign = {}
    for s in summaries:
        for k, n in (s.get("foreign") or {}).items():
            foreign[k] = foreign.get(k, 0) + n
    nontrivial = sum(s["nontrivial"] for s in summaries)
    keys = set()
    ikeys = set()
    stats = {}
    samples = []
    violations = []
    for s in summaries:
        keys.update(s["keys"])
        ikeys.update(s.get("ikeys", ()))
        merge_stats(stats, s["stats"])
        samples.extend(s["samples"])
        for he in s["harness_errors"]:
            harness.append(json.dumps(he)[:3000])
        for v in s["violations"]:
            v["hashseed"] = s["hashseed"]
            violations.append(v)
    known = [k for k in load_known() if k["property"] == prop]
    open_fp = {k["fingerprint"]: k for k in known if k.get("status") == "open"}
    printed_known = set()
    new = []
    seen = set()
    for v in violations:
        if v["class"] in seen:
            continue
        seen.add(v["class"])
        fp = v["fingerprint"]
        if fp in open_fp:
            if fp not in printed_known:
                printed_known.add(fp)
                print(f"KNOWN-FINDING: property={prop} {fp}: {open_fp[fp]['what']}")
            continue
        path = write_replay(prop, v, tier, v["hashseed"])
        new.append((v, path))
        print(f"VIOLATION property={prop} replay={path}")
        print(f"  class={v['class']}\n  {v['message'][:600]}")
    variants = int(stats.get("variants", 0))
    evaluations = variants if variants else runs
    ev = {
        "property_id": prop,
        "tier": tier,
        "seed": batch_seed,
        "level": LEVEL.get(prop, "exploration"),
        "coverage": {
            "evaluations": evaluations,
            "distinct_nontrivial": len(keys),
            "rule": engine.rule(),
            "samples": samples[:3],
            "runs": runs,
            "runs_nontrivial": nontrivial,
            "fault_variants": variants,
            "runs_per_hour": int(runs / max(wall_s, 1e-6) * 3600),
            "evaluations_per_hour": int(evaluations / max(wall_s, 1e-6) * 3600),
            "steps": stats.get("steps", 0),
            "simulated_seconds": round(stats.get("sim_ms", 0) / 1000.0, 3),
            "faults_fired": stats.get("faults", {}),
            "probes": stats.get("probes", {}),
            "distinct_interleavings": len(ikeys),
            "real_code": engine.real_code(),
            "stubs": engine.stubs(),
            "known_findings_printed": sorted(printed_known),
            "wall_stopped_early": any(s.get("wall_stop") for s in summaries),
            "slow_runs_repeated": sum(s.get("slow_runs", 0) for s in summaries),
            "mismatches_attributed_to_other_properties": foreign,
            "workers": len(summaries),
        },
        "assumptions": engine.assumptions(),
        "wall_s": round(wall_s, 2),
        "violations": len(new),
    }
    extra = engine.extra_evidence(stats)
    if extra:
        ev["coverage"].update(extra)
    if harness:
        for h in harness[:5]:
            print("HARNESS-ERROR " + h[:3000])
        return 2
    if write_ev:
        os.makedirs(os.path.join(VERIF, "evidence"), exist_ok=True)
        tmp = os.path.join(VERIF, "evidence", f".{prop}.json.tmp")
        with open(tmp, "w") as f:
            json.dump(ev, f, indent=1, sort_keys=True, default=str)
        os.replace(tmp, os.path.join(VERIF, "evidence", f"{prop}.json"))
    if foreign:
        # known findings of other properties show up here too (their own checks print them)
        print(f"NOTE {prop}: {sum(foreign.values())} run(s) met a mismatch that belongs to another "
              f"property and is reported by that property's check: "
              + ", ".join(f"{k} x{n}" for k, n in sorted(foreign.items())[:6]))
    print(f"{prop} {tier}: runs={runs} evaluations={evaluations} distinct={len(keys)} "
          f"violations={len(new)} known={len(printed_known)} wall={wall_s:.1f}s")
    if len(keys) < 2 and not new:
        print("HARNESS-ERROR fewer than 2 distinct non-trivial cases explored")
        return 2
    return 1 if new else 0


def replay_main(path):
    with open(path) as f:
        body = json.load(f)
    want_hs = str(body.get("hashseed", 0))
    if os.environ.get("PYTHONHASHSEED") != want_hs:
        env = dict(os.environ)
        env["PYTHONHASHSEED"] = want_hs
        env["PYTHONDONTWRITEBYTECODE"] = "1"
        os.execve(sys.executable, [sys.executable, os.path.join(VERIF, "checks", "run.py"),
                                   "--replay", path], env)
    setup_paths()
    prop = body["property"]
    engine = load_engine(prop)
    tier = body.get("tier", "quick")
    status, res = execute_isolated(engine, body["scenario"], tier, engine.run_timeout(tier) * 2)
    if status != "ok":
        print(f"HARNESS-ERROR replay {status}: {str(res)[-2000:]}")
        return 2
    v = first_violation(res, prop, body["violation"]["class"])
    if v is None:
        print(f"replay of {path}: no violation (property {prop} held)")
        return 0
    same_class = v["class"] == body["violation"]["class"]
    same_digest = res.get("digest") == body.get("event_digest")
    print(f"VIOLATION property={prop} replay={path}")
    print(f"  class={v['class']} same_class={same_class} same_event_digest={same_digest}")
    if not same_digest:
        print(f"  recorded digest {body.get('event_digest')} replayed digest {res.get('digest')}")
    print(f"  {v.get('message', '')[:1500]}")
    return 1


class EngineBase:
    """Defaults shared by all engines."""

    def __init__(self, prop):
        self.prop = prop

    def budget(self, tier):
        """(number of runs, soft wall seconds)"""
        return (2000, 45.0) if tier == "quick" else (60000, 600.0)

    def run_timeout(self, tier):
        return 60.0

    def regression_scenarios(self):
        return []

    def shrink(self, scenario):
        yield from generic_shrink(scenario)

    def sample(self, scenario, result):
        return {"scenario": scenario, "outcome": result.get("outcome")}

    def rule(self):
        return ""

    def real_code(self):
        return ["signac (working tree of /repo)", "synced_collections 1.0.1",
                "CPython json/shutil/gzip/tarfile/zipfile/filecmp/tempfile", "Linux tmpfs"]

    def stubs(self):
        return ["listing order (seeded permutation)", "uuid4 / tempfile names (seeded)",
                "file and directory mtimes (simulated clock)", "fork as in-memory snapshot",
                "threading.RLock in signac / synced_collections -> SimRLock",
                "multiprocessing.pool.ThreadPool in signac.project / signac.sync -> SimPool",
                "shutil's sendfile(2) fast copy switched off (copies go through read/write, which the seam sees)"]

    def assumptions(self):
        return ["process-death crash model: completed kernel calls are durable; power loss not modelled",
                "local POSIX file system semantics (tmpfs); no NFS, no Windows"]

    def extra_evidence(self, stats):
        return {}

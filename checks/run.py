#!/venv/bin/python
"""Entry point of every check:  run.py --property Cxx [--tier quick|thorough]
                                 run.py --replay <file>
Honours VERIF_SEED, VERIF_TIER, VERIF_REPO (default /repo), VERIF_WORKERS."""
import os
import sys

VERIF = os.path.dirname(os.path.dirname(os.path.abspath(__file__)))
sys.dont_write_bytecode = True
if VERIF not in sys.path:
    sys.path.insert(0, VERIF)

from simcore.driver import main  # noqa: E402

if __name__ == "__main__":
    sys.exit(main())

"""tools/seed_prompts.py <avoid.json>: create one scratch worktree /tmp/wt_<Cxx> and one prompt file
/tmp/agent_prompt_<Cxx>.txt per property listed in avoid.json ({"Cxx": "changes already known, to avoid"}).
The prompts give a sub-agent only the property text - nothing from /verif."""
import json, os, subprocess, sys
V = os.path.dirname(os.path.dirname(os.path.abspath(__file__)))
avoid = json.load(open(sys.argv[1]))
props = {json.loads(l)['id']: json.loads(l) for l in open(os.path.join(V, 'properties.jsonl'))}
base = open(os.path.join(V, 'tools', 'seed_prompt.txt')).read()
for i, av in avoid.items():
    subprocess.run(["git", "-C", "/repo", "worktree", "add", "-q", "--detach", f"/tmp/wt_{i}", "HEAD"], check=True)
    p = props[i]
    text = f"{p['id']} — {p['title']}\n\nSTATEMENT: {p['statement']}\n\nQUANTIFIED OVER: {p['quantifier']['text']}\n"
    t = base.replace('WT', f'/tmp/wt_{i}').replace('PROPERTY_TEXT', text).replace('AVOID_TEXT', av).replace('x_ID', f'x_{i}')
    open(f'/tmp/agent_prompt_{i}.txt', 'w').write(t)
print("ok", list(avoid))

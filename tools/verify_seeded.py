"""tools/verify_seeded.py <seeded dir>: confirm a seeded change independently in a scratch worktree of /repo:
   (1) demo.py passes on the unmodified tree, (2) patch applies, (3) the baseline suite still has 310 passes and no
   new failures, (4) demo.py fails with the change.  Prints a JSON verdict."""
import json, os, shutil, subprocess, sys, tempfile
d = os.path.abspath(sys.argv[1])
wt = tempfile.mkdtemp(prefix="wt_verify_", dir="/tmp")
os.rmdir(wt)
out = {}
try:
    subprocess.run(["git", "-C", "/repo", "worktree", "add", "-q", "--detach", wt, "HEAD"], check=True)
    env = dict(os.environ, PYTHONPATH=wt, PYTHONDONTWRITEBYTECODE="1")
    shutil.copy(os.path.join(d, "demo.py"), os.path.join(wt, "demo.py"))
    # demo.py may hard-code the agent's worktree path
    src = open(os.path.join(wt, "demo.py")).read()
    import re
    src = re.sub(r"/tmp/wt_C\d+", wt, src)
    open(os.path.join(wt, "demo.py"), "w").write(src)
    r = subprocess.run(["/venv/bin/python", "demo.py"], cwd=wt, env=env, capture_output=True, text=True, timeout=600)
    out["demo_without_change_exit"] = r.returncode
    r = subprocess.run(["git", "-C", wt, "apply", os.path.join(d, "patch.diff")], capture_output=True, text=True)
    out["patch_applies"] = r.returncode == 0
    if r.returncode != 0:
        out["apply_error"] = r.stderr[-300:]
    else:
        r = subprocess.run(["/venv/bin/python", "-c", "import signac;print(signac.__file__)"], cwd=wt, env=env, capture_output=True, text=True)
        out["imported_from"] = r.stdout.strip()
        r = subprocess.run("/venv/bin/python -m pytest -q -p no:cacheprovider --timeout=900 tests 2>&1 | tail -1", shell=True, cwd=wt, env=env, capture_output=True, text=True, timeout=1500)
        out["suite_tail"] = r.stdout.strip()
        r = subprocess.run(["/venv/bin/python", "demo.py"], cwd=wt, env=env, capture_output=True, text=True, timeout=600)
        out["demo_with_change_exit"] = r.returncode
        out["demo_with_change_tail"] = (r.stdout + r.stderr).strip().splitlines()[-3:]
finally:
    subprocess.run(["git", "-C", "/repo", "worktree", "remove", "--force", wt], capture_output=True)
    shutil.rmtree(wt, ignore_errors=True)
out["confirmed"] = bool(out.get("patch_applies") and out.get("demo_without_change_exit") == 0
                        and out.get("demo_with_change_exit") not in (0, None)
                        and "310 passed" in out.get("suite_tail", "") and "35 failed" in out.get("suite_tail", ""))
print(json.dumps(out, indent=1))

"""tools/mkmutant.py <name> <repo-relative file> <old> <new>  -> selftest/mutants/<name>.patch (diff -u against /repo)"""
import os, subprocess, sys, tempfile
name = sys.argv[1]
triples = sys.argv[2:]
assert len(triples) % 3 == 0
edits = {}
for i in range(0, len(triples), 3):
    rel, old, new = triples[i:i + 3]
    old = old.encode().decode("unicode_escape"); new = new.encode().decode("unicode_escape")
    src = edits.get(rel) or open(os.path.join("/repo", rel)).read()
    assert src.count(old) == 1, f"{src.count(old)} occurrences of old text in {rel}: {old[:40]!r}"
    edits[rel] = src.replace(old, new)
text = ""
with tempfile.TemporaryDirectory() as d:
    for rel, new_src in edits.items():
        a = os.path.join(d, "a"); b = os.path.join(d, "b")
        os.makedirs(os.path.dirname(os.path.join(a, rel)), exist_ok=True); os.makedirs(os.path.dirname(os.path.join(b, rel)), exist_ok=True)
        open(os.path.join(a, rel), "w").write(open(os.path.join("/repo", rel)).read()); open(os.path.join(b, rel), "w").write(new_src)
        r = subprocess.run(["diff", "-u", os.path.join("a", rel), os.path.join("b", rel)], cwd=d, capture_output=True, text=True)
        text += r.stdout
out = os.path.join(os.path.dirname(os.path.dirname(os.path.abspath(__file__))), "selftest", "mutants", name + ".patch")
open(out, "w").write(text)
print(out, len(text.splitlines()), "lines")

"""tools/soak.py <first seed> <last seed> [props...]: run quick checks over many VERIF_SEED values without
touching evidence; print only alarms (VIOLATION / HARNESS-ERROR) and a summary."""
import json, os, subprocess, sys, time
VERIF = os.path.dirname(os.path.dirname(os.path.abspath(__file__)))
a, b = int(sys.argv[1]), int(sys.argv[2])
props = sys.argv[3:] or [c["property_id"] for c in json.load(open(os.path.join(VERIF, "MANIFEST.json")))["checks"]]
tier = os.environ.get("SOAK_TIER", "quick")
bad = 0
t0 = time.time()
for seed in range(a, b + 1):
    for p in props:
        env = dict(os.environ, VERIF_SEED=str(seed))
        r = subprocess.run([sys.executable, os.path.join(VERIF, "checks", "run.py"), "--property", p, "--tier", tier,
                            "--no-evidence"], capture_output=True, text=True, env=env, cwd=VERIF)
        lines = [l for l in (r.stdout + r.stderr).splitlines() if l.startswith(("VIOLATION", "HARNESS", "  class=", "  "))]
        if r.returncode != 0:
            bad += 1
            print(f"seed={seed} {p} exit={r.returncode}")
            for l in lines[:8]:
                print("   ", l[:400])
            sys.stdout.flush()
print(f"soak seeds {a}..{b} props {props}: {bad} alarms, {time.time()-t0:.0f}s")

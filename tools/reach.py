"""tools/reach.py [Cxx ...]: which lines of /repo/signac do the engines execute?

Runs a few hundred scenarios per engine with line coverage switched on in every forked run-process
(VERIF_REACH_DIR, see simcore/driver.py), combines the data and prints, per source file, the lines no
engine reached.  A blind-spot finder for generators, not a check: nothing here is registered in
MANIFEST.json."""
import glob
import os
import shutil
import subprocess
import sys

V = os.path.dirname(os.path.dirname(os.path.abspath(__file__)))
sys.path.insert(0, V)
from simcore.driver import ENGINES, scratch_base  # noqa: E402

props = sys.argv[1:] or sorted(ENGINES)
d = os.path.join(scratch_base(), "reach")
shutil.rmtree(d, ignore_errors=True)
os.makedirs(d)
env = dict(os.environ, VERIF_REACH_DIR=d)
for p in props:
    r = subprocess.run([sys.executable, os.path.join(V, "checks", "run.py"), "--property", p, "--tier", "quick",
                        "--count", os.environ.get("REACH_COUNT", "320"), "--no-evidence"],
                       env=env, capture_output=True, text=True)
    print(p, (r.stdout.strip().splitlines() or ["?"])[-1], flush=True)
import coverage  # noqa: E402

cov = coverage.Coverage(data_file=os.path.join(d, "cov"), config_file=False)
cov.combine(sorted(glob.glob(os.path.join(d, "cov.*"))))
cov.save()
repo = os.environ.get("VERIF_REPO", "/repo")
out = os.path.join(V, "out", "reach.txt")
os.makedirs(os.path.dirname(out), exist_ok=True)
with open(out, "w") as f:
    cov.report(include=[os.path.join(repo, "signac", "*")], show_missing=True, file=f)
# lines inside function bodies only (module / class level statements ran at import, before the fork)
import ast  # noqa: E402

with open(out, "a") as f:
    f.write("\n\nUnreached statements inside functions:\n")
    for path in sorted(glob.glob(os.path.join(repo, "signac", "**", "*.py"), recursive=True)):
        if "_vendor" in path:
            continue
        try:
            _, stmts, _, missing, _ = cov.analysis2(path)
        except Exception:  # noqa: BLE001
            continue
        src = open(path).read()
        lines = src.splitlines()
        body = {}
        for node in ast.walk(ast.parse(src)):
            if isinstance(node, (ast.FunctionDef, ast.AsyncFunctionDef)):
                for st in node.body:
                    for sub in ast.walk(st):
                        if hasattr(sub, "lineno"):
                            body.setdefault(sub.lineno, node.name)
        miss = [ln for ln in missing if ln in body]
        if miss:
            f.write(f"\n== {os.path.relpath(path, repo)} ({len(miss)} of {len([x for x in stmts if x in body])})\n")
            for ln in miss:
                f.write(f"  {ln:5d} [{body[ln]}] {lines[ln - 1].strip()[:110]}\n")
print(open(out).read().split("Unreached statements inside functions:")[1])
shutil.rmtree(d, ignore_errors=True)

"""Debug helper: tools/one.py <prop> <index> [tier]  - generate and execute one scenario in a fork, print result."""
import os, sys, json, random, time
VERIF = os.path.dirname(os.path.dirname(os.path.abspath(__file__)))
sys.path.insert(0, VERIF)
from simcore import driver
driver.setup_paths()
prop = sys.argv[1]; idx = int(sys.argv[2]); tier = sys.argv[3] if len(sys.argv) > 3 else "quick"
eng = driver.load_engine(prop)
rs = driver.run_seed(int(os.environ.get("VERIF_SEED", "0")), prop, idx)
sc = eng.generate_indexed(idx, random.Random(rs), tier) if hasattr(eng, "generate_indexed") else eng.generate(random.Random(rs), tier); sc["seed"] = rs
if os.environ.get("PATCH"):
    sc.update(json.loads(os.environ["PATCH"]))
print(json.dumps(sc)[:1500])
t = time.time()
st, res = driver.execute_isolated(eng, sc, tier, 120)
print("status", st, "%.2fs" % (time.time() - t))
if st == "ok":
    res2 = dict(res); res2["keys"] = res2.get("keys", [])[:10]
    print(json.dumps(res2, indent=1, default=str)[:4000])
else:
    print(res)

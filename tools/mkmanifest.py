"""Regenerate MANIFEST.json from the table below (keeps it schema-valid)."""
import json, os
VERIF = os.path.dirname(os.path.dirname(os.path.abspath(__file__)))
BASE = "cd /repo && /venv/bin/python -m pytest -ra -q -p no:cacheprovider --timeout=900 --continue-on-collection-errors"
NA = {
 "C01": "pure function of one input value (calc_id): no schedule, clock, fault, crash point or history for a simulator to search; DESIGN.md section 6",
 "C06": "pure function of (static corpus, filter); result is a set independent of listing order, time and faults; DESIGN.md section 6",
 "C07": "equivalence of query spellings / cursor views on a static corpus; no history, schedule or fault in the statement; DESIGN.md section 6",
 "C18": "pure summaries (detect_schema, diff_jobs) of a static set of state points; DESIGN.md section 6",
 "C19": "pure function of a directory layout and a query path; its one history-shaped clause (init_project idempotent) is exercised inside the C03 engine but the property is not claimed; DESIGN.md section 6",
}
CHECKS = {}  # filled by register()
def register(pid, engine, level, text, note, technique, ref):
    CHECKS[pid] = {
        "property_id": pid,
        "quick_cmd": f"/venv/bin/python checks/run.py --property {pid} --tier quick",
        "thorough_cmd": f"/venv/bin/python checks/run.py --property {pid} --tier thorough",
        "evidence_file": f"/verif/evidence/{pid}.json",
        "replay_cmd_template": "/venv/bin/python checks/run.py --replay {path}",
        "engine": engine,
        "level_claimed": {"category": level, "text": text, "design_ref": ref},
        "level_note": note,
        "technique": technique,
    }
TB = ("trusted: the seam (monkeypatched os/open) sees every file-system call signac makes on this platform; "
      "tmpfs rename/unlink semantics equal the deployment file system's; process death = completed calls durable")
exec(open(os.path.join(VERIF, "tools", "checks_table.py")).read())
PENDING = [p for p in ["C02","C03","C04","C05","C08","C09","C10","C11","C12","C13","C14","C15","C16","C17","C20"] if p not in CHECKS]
m = {
 "version": 1,
 "setup_cmd": "/venv/bin/python tools/setup_check.py",
 "hooks": {"guard": "SIGNAC_VERIF_SIM", "enable": "none needed: every seam is applied from /verif at run time by monkeypatching os/builtins/io inside a SimWorld; /repo carries no hook",
           "baseline_off_cmd": BASE, "source_commits": [], "add_only": True},
 "engines": [],
 "checks": [CHECKS[k] for k in sorted(CHECKS)],
 "notes": "Deterministic simulation with fault injection; see DESIGN.md. VERIF_REPO selects the tree under test (default /repo).",
 "not_applicable": [{"property_id": k, "reason": v} for k, v in sorted(NA.items())] +
                   [{"property_id": p, "reason": "check under construction in this session (engine designed in DESIGN.md section 5, not yet registered)"} for p in PENDING],
}
eng = {}
for c in m["checks"]:
    eng.setdefault(c["engine"], []).append(c["property_id"])
m["engines"] = [{"name": e, "path": f"/verif/machines/{e}.py", "serves_properties": ps,
                 "kind_free_text": "seeded deterministic simulation engine (SimWorld seam + scheduler + fault plan)"} for e, ps in sorted(eng.items())]
json.dump(m, open(os.path.join(VERIF, "MANIFEST.json"), "w"), indent=1)
print("checks:", sorted(CHECKS), "pending:", PENDING)

"""setup_cmd: verify the offline environment the checks need (nothing is built)."""
import os, sys
sys.path.insert(0, os.environ.get("VERIF_REPO", "/repo"))
sys.dont_write_bytecode = True
import signac, synced_collections  # noqa
assert os.path.realpath(os.path.dirname(os.path.dirname(signac.__file__))) == os.path.realpath(os.environ.get("VERIF_REPO", "/repo")), signac.__file__
sys.path.insert(0, os.path.dirname(os.path.dirname(os.path.abspath(__file__))))
from model import canon
canon.selfcheck()
from simcore.driver import scratch_base
print("ok: signac", signac.__version__, "from", signac.__file__, "scratch", scratch_base())

"""tools/take_seeded.py <Cxx> <suffix>: copy patch.diff and demo.py from /tmp/wt_<Cxx> to seeded/<Cxx>_<suffix>,
verify the change independently (tools/verify_seeded.py) and run the property's quick check against it."""
import json, os, shutil, subprocess, sys
V = os.path.dirname(os.path.dirname(os.path.abspath(__file__)))
prop, suffix = sys.argv[1], sys.argv[2]
wt = f"/tmp/wt_{prop}"
d = os.path.join(V, "seeded", f"{prop}_{suffix}")
os.makedirs(d, exist_ok=True)
shutil.copy(os.path.join(wt, "patch.diff"), os.path.join(d, "patch.diff"))
shutil.copy(os.path.join(wt, "demo.py"), os.path.join(d, "demo.py"))
r = subprocess.run([sys.executable, os.path.join(V, "tools", "verify_seeded.py"), d], capture_output=True, text=True)
open(os.path.join(d, "verify.json"), "w").write(r.stdout)
ver = json.loads(r.stdout)
print(prop, "confirmed:", ver["confirmed"], ver.get("suite_tail"), "demo without/with:", ver.get("demo_without_change_exit"), ver.get("demo_with_change_exit"))
if not os.path.exists(os.path.join(d, "meta.json")):
    json.dump({"property": prop}, open(os.path.join(d, "meta.json"), "w"))
r = subprocess.run([sys.executable, os.path.join(V, "selftest", "sensitivity.py"), f"{prop}_{suffix}"], capture_output=True, text=True)
print(r.stdout.strip()[:400])

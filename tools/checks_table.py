register("C10", "atomic", "fault_enumeration",
 "Every mutating file-system step of every generated document/cache write is a crash point (death before it; torn prefix classes inside each write chunk), enumerated completely per scenario; plus every reader position among the writer's steps and seeded random/PCT interleavings. Scenarios are sampled by seed, so this is complete per scenario and evidence across scenarios, not proof.",
 TB, "deterministic simulation: fork-and-kill crash enumeration over the recorded step trace + seeded reader/writer interleavings", "DESIGN.md 5 (C10)")

register("C10", "atomic", "fault_enumeration",
 "Every mutating file-system step of every generated document/cache write is a crash point (death before it; torn prefix classes inside each write chunk), enumerated completely per scenario; plus every reader position among the writer's steps and seeded random/PCT interleavings. Scenarios are sampled by seed, so this is complete per scenario and evidence across scenarios, not proof.",
 TB, "deterministic simulation: fork-and-kill crash enumeration over the recorded step trace + seeded reader/writer interleavings", "DESIGN.md 5 (C10)")
register("C11", "crashops", "fault_enumeration",
 "Per generated scenario (pre-state x lifecycle operation x handle provenance) the single-fault space of the operation's recorded step trace is enumerated completely: process death before every mutating step, torn prefixes of every write, and EIO/ENOSPC/EACCES/EROFS/EXDEV at every step; double faults are sampled. After each fault a fresh session checks I1-I4 on marker files and lineages and the caller-visible outcome. Scenarios are sampled by seed.",
 TB, "deterministic simulation: fork-and-kill / errno injection enumerated over the recorded step trace of each lifecycle operation", "DESIGN.md 5 (C11)")
LT = ("trusted: the reference model of Appendix A; observation through raw reads and fresh signac handles; "
      "the seam sees every file-system call (used for the 'wrote nothing' oracles)")
register("C02", "lifecycle", "exploration",
 "Seeded histories of open / init / re-init / restart / cache update / lookups over typed state points and mined id-prefix families; the call log decides 'open_job wrote nothing' and 'init never rewrote a valid file'; every prefix length 1..32 of every id is resolved against the model's prefix table. Sampled histories: evidence, not proof.",
 LT, "deterministic simulation: seeded operation histories with restarts / listing-order permutation / cache states, model + call-log oracle", "DESIGN.md 5 (C02)")
register("C03", "lifecycle", "exploration",
 "Seeded operation histories (<= 60 steps) over a small universe on two projects with several live handles per job; after every step the raw disk, a fresh session, the session's long-lived project handle and check() are compared with a plain in-memory model; decoy entries and leftovers are checked. Sampled histories: evidence, not proof; bounded-exhaustive enumeration is not done (that would be model checking).",
 LT, "deterministic simulation: seeded operation histories against an executable reference model, restarts and listing order as the fault dimension", "DESIGN.md 5 (C03)")
register("C04", "lifecycle", "exploration",
 "Same engine; at every state point change / move / clone the source and destination directories are byte-snapshotted before and after (carried data, refusal leaves both unchanged), and after every step every live handle (by state point, by id, copy.copy, deepcopy, pickle) must describe the job the model says it denotes. Sampled histories: evidence, not proof.",
 LT, "deterministic simulation: seeded operation histories with byte-snapshot and handle-following oracles", "DESIGN.md 5 (C04)")
